package rules

// Rules added after the sixth round of seeded changes (seeds Cxx-11, Cxx-12).

import (
	"go/token"
	"go/types"
	"strings"

	"golang.org/x/tools/go/ssa"

	"verif/internal/an"
	"verif/internal/report"
)

var _ = token.ADD
var _ types.Type
var _ = strings.Contains
var _ = report.New
var _ = an.Set

// ruleUnminedCreditCheckedPerOutput (C10, C09): every output of a received transaction is checked against what is
// already recorded, not just the first.
func ruleUnminedCreditCheckedPerOutput(c *report.Ctx) {
	p := c.P
	c.Rule("unmined-credit-checked-per-output", "in addUnminedCredits every putRawUnminedCredit is dominated, inside the same iteration over the relevant outputs, by the lookups that refuse an output already recorded as pending (existsRawUnminedCredit) or as a mined unspent (existsRawUnspent): insertMemPoolTx has no other protection against a confirmed transaction being announced again, and the first relevant output may have been spent since while a later staking/binding output is still locked — checked once per transaction, that deposit is recorded a second time as pending", 1)
	f := fn(c, pkgTxmgr, "UtxoStore", "addUnminedCredits")
	put := fn(c, pkgTxmgr, "", "putRawUnminedCredit")
	e1 := fn(c, pkgTxmgr, "", "existsRawUnminedCredit")
	e2 := fn(c, pkgTxmgr, "", "existsRawUnspent")
	if f == nil || put == nil || e1 == nil || e2 == nil {
		return
	}
	puts := calls(f, put)
	if len(puts) == 0 {
		c.Fail(sk(f)+":putRawUnminedCredit", "addUnminedCredits no longer records unmined credits (anchor lost)", p.Pos(f.Pos()))
		return
	}
	for i, s := range puts {
		hdr := loopHeaderOf(s.Block())
		key := siteKey(f, "putRawUnminedCredit~checked", i+1)
		var miss []string
		for _, chk := range []*ssa.Function{e1, e2} {
			ok := false
			for _, cs := range calls(f, chk) {
				if hdr != nil && loopHeaderOf(cs.Block()) == hdr && (instrDominates(cs, s) || !reachesWithout(p, f, hdr, cs, s)) {
					ok = true
				}
			}
			if !ok {
				miss = append(miss, nm(chk))
			}
		}
		if hdr == nil {
			c.Fail(key, "the unmined credit is not written per relevant output (no enclosing loop)", posOf(c, s))
		} else if len(miss) > 0 {
			c.Fail(key, "an output of a received transaction is recorded as pending without "+strings.Join(miss, " / ")+" having been asked about that very output in this iteration: a mined transaction announced again whose first relevant output is spent is accepted, and its still-locked deposit appears a second time, as pending", posOf(c, s))
		} else {
			c.OK(key, "both lookups are made for the output being recorded", posOf(c, s))
		}
	}
}

// ruleEveryRecordedSpenderConsidered (C09): a confirmed transaction purges every pending spender of its inputs.
func ruleEveryRecordedSpenderConsidered(c *report.Ctx) {
	p := c.P
	c.Rule("every-recorded-spender-considered", "removeDoubleSpends walks the whole list fetchUnminedInputSpendTxHashes returns for each input — it is not skipped or cut on the list's length (only an empty list has nothing to do): the confirming transaction need never have been pending itself (first seen in a block, or replacing a rolled-back one), so a single recorded spender can be the conflicting transaction that must vanish with its descendants", 1)
	f := fn(c, pkgTxmgr, "TxStore", "removeDoubleSpends")
	fetch := fn(c, pkgTxmgr, "", "fetchUnminedInputSpendTxHashes")
	if f == nil || fetch == nil {
		return
	}
	fs := calls(f, fetch)
	if len(fs) == 0 {
		c.Fail(sk(f)+":fetch", "removeDoubleSpends no longer fetches the pending spenders of an input (anchor lost)", p.Pos(f.Pos()))
		return
	}
	for i, s := range fs {
		key := siteKey(f, "spenders-len-test", i+1)
		res, _ := s.(ssa.Value)
		bad := ""
		var badAt ssa.Instruction
		if res != nil && res.Referrers() != nil {
			for _, r := range *res.Referrers() {
				call, ok := r.(*ssa.Call)
				if !ok {
					continue
				}
				if b, isB := call.Call.Value.(*ssa.Builtin); !isB || b.Name() != "len" {
					continue
				}
				for _, lr := range *call.Referrers() {
					cmp, ok := lr.(*ssa.BinOp)
					if !ok {
						continue
					}
					k, isK := cmp.Y.(*ssa.Const)
					other := cmp.X
					if !isK {
						k, isK = cmp.X.(*ssa.Const)
						other = cmp.Y
					}
					if !isK || other != ssa.Value(call) || k.Value == nil {
						continue
					}
					// comparisons that only single out the empty list are harmless: ==0, !=0, >0, <1, >=1, <=0
					v := k.Value.ExactString()
					harmless := v == "0" || (v == "1" && (cmp.Op == token.LSS || cmp.Op == token.GEQ))
					if _, isIf := firstIfUser(cmp); isIf && !harmless {
						bad = "len(spenders) " + cmp.Op.String() + " " + v
						badAt = cmp
					}
				}
			}
		}
		if bad != "" {
			c.Fail(key, "the purge of pending double spends branches on "+bad+": with exactly one recorded spender the loop is skipped, but that spender is the conflicting pending transaction whenever the confirmed transaction was never pending itself — it and its descendants stay pending forever and keep the coins they spend flagged", posOf(c, badAt))
		} else {
			c.OK(key, "every recorded spender reaches the conflict purge", posOf(c, s))
		}
	}
}

func firstIfUser(v ssa.Value) (*ssa.If, bool) {
	if v.Referrers() == nil {
		return nil, false
	}
	for _, r := range *v.Referrers() {
		if ifi, ok := r.(*ssa.If); ok {
			return ifi, true
		}
		if u, ok := r.(*ssa.UnOp); ok {
			if ifi, ok := firstIfUser(u); ok {
				return ifi, true
			}
		}
	}
	return nil, false
}

// rulePendingInputRowOwners (C09): a pending-input row is deleted for an input of a transaction that leaves the pending
// set, or by the wallet-removal path — never for an outpoint just because the transaction that created it confirmed.
func rulePendingInputRowOwners(c *report.Ctx) {
	p := c.P
	c.Rule("pending-input-row-owners", "deleteRawUnminedInput is called with the key of a transaction's input (canonicalOutPoint of a TxIn.PreviousOutPoint) or from code only the wallet removal reaches: the row 'outpoint -> pending spenders' is the only record that a still-pending child spends an output, so deleting it when the output's own transaction confirms un-flags the coin (spent_by_unmined false, selectable again) and detaches the child from later conflict purges", 3)
	del := fn(c, pkgTxmgr, "", "deleteRawUnminedInput")
	ar := fn(c, pkgWallet, "NtfnsHandler", "asyncRemove")
	if del == nil || ar == nil {
		return
	}
	removalOnly := func(f *ssa.Function) bool {
		// every module caller chain of f starts at asyncRemove
		seen := map[*ssa.Function]bool{}
		var up func(g *ssa.Function, d int) bool
		up = func(g *ssa.Function, d int) bool {
			if g == ar {
				return true
			}
			if d > 30 {
				return false
			}
			if seen[g] {
				return true
			}
			seen[g] = true
			callers := p.Callers(g)
			n := 0
			for _, cl := range callers {
				if !p.InModule(cl.From) {
					continue // ("ref" edges count: a method value or literal handed to Update runs on behalf of its creator)
				}
				n++
				if !up(apiOwnerOrSelf(p, cl.From), d+1) {
					return false
				}
			}
			return n > 0
		}
		return up(f, 0)
	}
	n := 0
	for _, f := range p.ModFuncs {
		if pk := an.FuncPkg(f); pk == nil || pk.Path() != pkgTxmgr {
			continue
		}
		for i, s := range calls(f, del) {
			n++
			key := siteKey(f, "deleteRawUnminedInput-key", i+1)
			d := p.Desc(an.CallOf(s).Args[1])
			switch {
			case strings.Contains(d, "PreviousOutPoint"):
				c.OK(key, "key of an input's previous outpoint", posOf(c, s), d)
			case removalOnly(f):
				c.OK(key, "wallet-removal path", posOf(c, s))
			default:
				c.Fail(key, "a pending-input row is deleted under a key that is not an input's previous outpoint ("+d+") outside the wallet-removal path: when a pending transaction confirms, the rows of its OUTPUTS record the still-pending children that spend them — deleting them un-flags those coins and the children never vanish when a conflict confirms", posOf(c, s))
			}
		}
	}
	if n == 0 {
		c.Fail("deleteRawUnminedInput", "no deleter of pending-input rows found (anchor lost)", "")
	}
}

// ruleEveryInputSized (C02): the signed-size estimate, from which the fee is computed, counts every input.
func ruleEveryInputSized(c *report.Ctx) {
	p := c.P
	c.Rule("every-input-sized", "estimateSignedSize adds the size of every credit it is given: the running total carried around its loop over the inputs is increased on every way back to the loop head (no iteration — a skipped 'duplicate', an input sharing its previous transaction with another — leaves it unchanged): the fee is the relay minimum for this size, so an input that is not counted makes the fee too small for the signed transaction", 1)
	f := fn(c, pkgWallet, "WalletManager", "estimateSignedSize")
	if f == nil {
		return
	}
	n := 0
	for _, b := range f.Blocks {
		for _, in := range b.Instrs {
			ph, ok := in.(*ssa.Phi)
			if !ok {
				break
			}
			bt, isBasic := ph.Type().Underlying().(*types.Basic)
			if !isBasic || bt.Info()&types.IsInteger == 0 {
				continue
			}
			// a loop-carried total: one edge from outside the loop is a constant, the others come from inside
			isAcc := false
			for i, e := range ph.Edges {
				if k, isK := e.(*ssa.Const); isK && k.Value != nil && k.Value.ExactString() == "0" && !b.Dominates(b.Preds[i]) {
					isAcc = true
				}
			}
			if !isAcc || ph.Comment == "rangeindex" {
				continue
			}
			// it must be what the function returns (through + and conversions)
			if !flowsToReturn(ph, 0) {
				continue
			}
			n++
			key := sk(f) + ":total-advances"
			stale := false
			for i, e := range ph.Edges {
				if b.Dominates(b.Preds[i]) && e == ssa.Value(ph) {
					stale = true
				}
			}
			if stale {
				c.Fail(key, "an iteration over the inputs can return to the loop head with the running size unchanged: that input is left out of the signed-size estimate, the fee computed from it is below the relay minimum for the real transaction (visible once several inputs share a previous transaction and the draft exceeds ~1000 bytes)", posOf(c, ph))
			} else {
				c.OK(key, "every way back to the loop head carries an increased total", posOf(c, ph))
			}
		}
	}
	if n == 0 {
		c.Fail(sk(f)+":total-advances", "no running size total found in estimateSignedSize (anchor lost)", p.Pos(f.Pos()))
	}
}

// flowsToReturn: v reaches a Return through arithmetic, conversions and phis.
func flowsToReturn(v ssa.Value, depth int) bool {
	if depth > 6 || v.Referrers() == nil {
		return false
	}
	for _, r := range *v.Referrers() {
		switch x := r.(type) {
		case *ssa.Return:
			return true
		case *ssa.BinOp:
			if flowsToReturn(x, depth+1) {
				return true
			}
		case *ssa.Convert:
			if flowsToReturn(x, depth+1) {
				return true
			}
		case *ssa.Phi:
			if x != v && flowsToReturn(x, depth+1) {
				return true
			}
		}
	}
	return false
}

// ruleCreationPatternOnlyForNewPassphrases (C05, C03): the creation-time passphrase pattern is never used to judge a
// candidate for an existing wallet.
func ruleCreationPatternOnlyForNewPassphrases(c *report.Ctx) {
	p := c.P
	c.Rule("creation-pattern-only-for-new-passphrases", "keystore.ValidatePassphrase (the character pattern of create-time passphrases) is applied only where a NEW passphrase is chosen — create and the new-passphrase arguments of ChangePrivPassphrase / ChangePubPassphrase: wallets imported from a mnemonic or a keystore file carry passphrases the pattern does not admit, so a pre-check of a candidate passphrase in front of signing, export, mnemonic reveal or removal refuses the right passphrase of such a wallet", 3)
	vp := fn(c, pkgKeystore, "", "ValidatePassphrase")
	if vp == nil {
		return
	}
	allowed := map[string]string{"create": "new wallet", "ChangePrivPassphrase": "new private passphrase", "ChangePubPassphrase": "new public passphrase"}
	n := 0
	for _, f := range p.ModFuncs {
		for i, s := range calls(f, vp) {
			n++
			owner := apiOwnerOrSelf(p, f)
			key := siteKey(f, "ValidatePassphrase", i+1)
			why, ok := allowed[nm(owner)]
			arg := an.ResolveCell(an.CallOf(s).Args[0])
			// in the Change* functions only the *new* passphrase parameter may be judged
			if ok && strings.HasPrefix(nm(owner), "Change") {
				if par, isPar := arg.(*ssa.Parameter); !isPar || !strings.HasPrefix(strings.ToLower(par.Name()), "new") {
					ok = false
				}
			}
			if ok && an.FuncPkg(owner) != nil && an.FuncPkg(owner).Path() == pkgKeystore {
				c.OK(key, why, posOf(c, s))
			} else {
				c.Fail(key, "the create-time passphrase pattern is applied to a candidate passphrase of an existing wallet in "+sk(owner)+": a wallet imported with a passphrase outside that pattern (blanks, punctuation) is refused with its own, correct passphrase", posOf(c, s))
			}
		}
	}
	if n == 0 {
		c.Fail("ValidatePassphrase", "no use of the creation pattern found (anchor lost)", "")
	}
}

// rulePassphraseVerdictReturned (C05, C03): a failed passphrase check makes the exported keystore operation fail.
func rulePassphraseVerdictReturned(c *report.Ctx, G map[*ssa.Function]bool) {
	p := c.P
	c.Rule("passphrase-verdict-returned", "in the keystore package, when a passphrase check (checkPassword, safelyCheckPassword, DeriveKey and their wrappers) fails inside a function that returns an error, no success return of that function is reachable from the failure edge — the verdict cannot be logged and dropped (e.g. assigned to a variable that shadows the one returned). Checks used the other way round (the function fails when the check SUCCEEDS, as ChangePubPassphrase does to refuse the private passphrase as public one) are recognised by their success edge reaching only error returns", 8)
	n := 0
	for _, f := range p.ModFuncs {
		if pk := an.FuncPkg(f); pk == nil || pk.Path() != pkgKeystore || f.Blocks == nil {
			continue
		}
		res := f.Signature.Results()
		if res.Len() == 0 || !an.IsErrorType(res.At(res.Len()-1).Type()) {
			continue
		}
		cnt := 0
		for _, s := range p.CallSitesTo(f, G) {
			call, ok := s.(*ssa.Call)
			if !ok {
				continue
			}
			errVal := errResultOf(call)
			if errVal == nil {
				continue
			}
			// the branches on this verdict: (block ending in `if err != nil`, failure successor, success successor)
			type br struct{ ifb, fail, ok *ssa.BasicBlock }
			var brs []br
			if errVal.Referrers() != nil {
				for _, r := range *errVal.Referrers() {
					cmp, isCmp := r.(*ssa.BinOp)
					if !isCmp || !(cmp.Op == token.NEQ || cmp.Op == token.EQL) || !(an.IsNilConst(cmp.X) || an.IsNilConst(cmp.Y)) {
						continue
					}
					if ifi, isIf := firstIfUser(cmp); isIf {
						b := ifi.Block()
						if cmp.Op == token.NEQ {
							brs = append(brs, br{b, b.Succs[0], b.Succs[1]})
						} else {
							brs = append(brs, br{b, b.Succs[1], b.Succs[0]})
						}
					}
				}
			}
			if len(brs) == 0 {
				continue // handed on unbranched (return f(...))
			}
			succ := map[*ssa.BasicBlock]bool{}
			for _, x := range brs {
				succ[x.ok] = true
			}
			cnt++
			n++
			key := siteKey(f, "verdict-of:"+calleeName(p, call), cnt)
			isSucc := func(r *ssa.Return, pred *ssa.BasicBlock) bool {
				switch p.ClassifyReturn(r, pred) {
				case an.RetSuccess:
					return true
				case an.RetMaybe:
					if len(r.Results) == 0 {
						return false
					}
					return !carriesValue(an.RetOperand(r, len(r.Results)-1), errVal, f, 0)
				}
				return false
			}
			// inverted use: from the success edge only error returns are reachable
			inverted := true
			for _, x := range brs {
				s0 := &an.Search{P: p, Fn: f, GoalReturn: isSucc}
				if w := s0.Run(x.ok, 0, x.ifb); w != nil {
					inverted = false
				}
			}
			if inverted {
				c.OK(key, "the check is used to refuse (its success leads to error returns only)", posOf(c, call))
				continue
			}
			var wit []string
			for _, x := range brs {
				ifb := x.ifb
				srch := &an.Search{P: p, Fn: f, GoalReturn: isSucc, CutEdge: func(from, to *ssa.BasicBlock) bool { return to == ifb }}
				if w := srch.Run(x.fail, 0, ifb); w != nil {
					wit = w
				}
			}
			_ = succ
			if wit != nil {
				c.Fail(key, "after "+calleeName(p, call)+" refused the passphrase the function can still return success: the operation it guards (removal, export, signing, mnemonic reveal) goes ahead with a wrong passphrase", posOf(c, call), wit...)
			} else {
				c.OK(key, "a refusal ends the function with an error", posOf(c, call))
			}
		}
	}
	if n == 0 {
		c.Fail("passphrase-checks", "no branched passphrase check found in the keystore package (anchor lost)", "")
	}
}

// ruleKeyLengthTolerant (C03, C14): a derived private key is usable whatever the length of its stored scalar.
func ruleKeyLengthTolerant(c *report.Ctx) {
	p := c.P
	c.Rule("key-length-tolerant", "the methods that use an extended key's scalar (ECPrivKey, ECPubKey, pubKeyBytes, Neuter, String, Child) do not refuse a private key because of the length of ExtendedKey.key: Child stores a derived scalar without its leading zero bytes (one child in 256 is 31 bytes long, see the recorded C14 finding), so a length test makes signing fail with the right passphrase for exactly those addresses — which were derived through the public path, handed out and paid to", 4)
	n := 0
	for _, name := range []string{"ECPrivKey", "ECPubKey", "pubKeyBytes", "Neuter", "String", "Child"} {
		f := fnOpt(c, pkgHD, "ExtendedKey", name)
		if f == nil {
			continue
		}
		n++
		key := sk(f) + ":no-length-refusal"
		bad := false
		for _, b := range f.Blocks {
			r, ok := b.Instrs[len(b.Instrs)-1].(*ssa.Return)
			if !ok {
				continue
			}
			for _, pr := range predsOrNil(b) {
				if p.ClassifyReturn(r, pr) != an.RetError {
					continue
				}
				for _, a := range p.GuardsOnEdge(pr, b) {
					if strings.Contains(a.Text, "len(ExtendedKey.key)") && !bad {
						bad = true
						c.Fail(key, "an error return of "+nm(f)+" is taken under `"+a.Text+"`: a legitimately short (leading-zero) derived private key is refused, so the wallet cannot sign for an address it issued", posOf(c, r))
					}
				}
			}
		}
		if !bad {
			c.OK(key, "no error return depends on the stored scalar's length", p.Pos(f.Pos()))
		}
	}
	if n == 0 {
		c.Lost("hdkeychain.ExtendedKey key-use methods")
	}
}

// ruleTaskQueuedAfterDurableMarker (C06): the worker is told about a removal only after the removal flag is on disk.
func ruleTaskQueuedAfterDurableMarker(c *report.Ctx) {
	p := c.P
	c.Rule("task-queued-after-durable-marker", "OnRemoveWallet hands the removal task to the worker (PushRemove) only after the write transaction that stores the removal flag (MarkDeleteWallet) returned without error: queued earlier, the worker can commit its first removal step before the flag is durable, and a crash in between leaves a wallet that is listed as ready, is not resumed as a removal at restart, and has lost its coins, addresses and balance", 1)
	on := fn(c, pkgWallet, "NtfnsHandler", "OnRemoveWallet")
	mark := fn(c, pkgTxmgr, "SyncStore", "MarkDeleteWallet")
	upd := fn(c, pkgDB, "", "Update")
	if on == nil || mark == nil || upd == nil {
		return
	}
	n := 0
	for _, f := range reachIn(p, on, pkgWallet) {
		for i, s := range pushSites(c, f, "remove") {
			n++
			key := siteKey(f, "PushRemove~after-flag", i+1)
			ok := false
			for _, u := range calls(f, upd) {
				cl := closureArg(u.(*ssa.Call), 1)
				if cl == nil {
					continue
				}
				reached, _ := p.Reach([]*ssa.Function{cl}, an.ReachOpts{})
				if !reached[mark] {
					continue
				}
				if dominatedBySuccessOf(p, s, u) {
					ok = true
				}
			}
			if ok {
				c.OK(key, "after the flag's transaction succeeded", posOf(c, s))
			} else {
				c.Fail(key, "the removal task is queued before (or without) the successful commit of the removal flag: the worker may delete the wallet's records first, and a crash before the flag is written leaves a half-deleted wallet that looks ready and is never resumed", posOf(c, s))
			}
		}
	}
	if n == 0 {
		c.Fail(sk(on)+":PushRemove", "OnRemoveWallet no longer queues the removal (anchor lost)", p.Pos(on.Pos()))
	}
}

// rulePartialDecoderFreshRecord (C08, C06): a decoder that leaves a field alone for some rows is never handed a record
// that already held another row.
func rulePartialDecoderFreshRecord(c *report.Ctx) {
	p := c.P
	c.Rule("partial-decoder-fresh-record", "readWalletStatus assigns WalletStatus.Flags only for values longer than eight bytes (status rows written before the flag byte existed are shorter): every call made inside a loop therefore decodes into a record allocated in that same iteration — a record hoisted out of the loop carries the previous row's flag over, and a wallet whose row sorts after one that is being removed is reported as removed too and erased by the worker's next start-up scan", 1)
	dec := fn(c, pkgTxmgr, "", "readWalletStatus")
	if dec == nil {
		return
	}
	// is the decoder still partial? (if it becomes total the obligation is void)
	partial := false
	ws := p.Type(pkgTxmgr, "WalletStatus")
	if ws != nil {
		w := p.MustPassOnSuccess(dec, func(in ssa.Instruction) bool {
			st, ok := in.(*ssa.Store)
			return ok && addrRootsAtField(st.Addr, ws, "Flags")
		})
		partial = w != nil
	}
	// where the record comes from: a parameter of the decoder, or the decoder's own allocation handed back
	recIdx := -1
	for i, q := range dec.Params {
		if ws != nil {
			if n := an.NamedOf(q.Type()); n != nil && n.Obj() == ws.Obj() && isPtrT(q.Type()) {
				recIdx = i
			}
		}
	}
	ownRecord := false
	if recIdx < 0 && ws != nil {
		ownRecord = true
		found := false
		for _, b := range dec.Blocks {
			r, isRet := b.Instrs[len(b.Instrs)-1].(*ssa.Return)
			if !isRet {
				continue
			}
			for _, rv := range r.Results {
				if n := an.NamedOf(rv.Type()); n == nil || n.Obj() != ws.Obj() || !isPtrT(rv.Type()) {
					continue
				}
				for _, o := range (&an.Tracer{P: p}).Origins(rv) {
					switch x := o.V.(type) {
					case *ssa.Alloc:
						found = found || x.Parent() == dec
						if x.Parent() != dec {
							ownRecord = false
						}
					case *ssa.Const:
					default:
						ownRecord = false
					}
				}
			}
		}
		ownRecord = ownRecord && found
	}
	n := 0
	for _, f := range p.ModFuncs {
		if pk := an.FuncPkg(f); pk == nil || !strings.HasPrefix(pk.Path(), pkgWallet) {
			continue
		}
		for i, s := range calls(f, dec) {
			n++
			key := siteKey(f, "readWalletStatus-record", i+1)
			if ownRecord {
				c.OK(key, "the decoder allocates the record it fills and hands it back: one row per record", posOf(c, s))
				continue
			}
			if !partial {
				c.OK(key, "the decoder assigns every field on every success path", posOf(c, s))
				continue
			}
			hdr := loopHeaderOf(s.Block())
			if hdr == nil {
				c.OK(key, "not in a loop: the record holds one row", posOf(c, s))
				continue
			}
			args := an.CallOf(s).Args
			rec := args[len(args)-1]
			if recIdx >= 0 && recIdx < len(args) {
				rec = args[recIdx]
			}
			al, isAlloc := rec.(*ssa.Alloc)
			if isAlloc && loopHeaderOf(al.Block()) == hdr {
				c.OK(key, "decodes into a record allocated in the same iteration", posOf(c, s))
			} else {
				c.Fail(key, "inside a loop the status rows are decoded into one record that outlives the iteration, although the decoder leaves Flags untouched for eight-byte rows: such a row inherits the flag of the row decoded before it (a wallet listed after one under removal is treated as under removal as well, and erased)", posOf(c, s))
			}
		}
	}
	if n == 0 {
		c.Fail("readWalletStatus", "no caller of the wallet-status decoder found (anchor lost)", "")
	}
}

// ruleBestHeightReadWhileParked (C07, C12): an import batch learns the follower's height only while the follower is parked.
func ruleBestHeightReadWhileParked(c *report.Ctx) {
	p := c.P
	c.Rule("best-height-read-while-parked", "asyncImport (and the literals it runs) reads NtfnsHandler.bestBlock only after the suspend hand-shake of that round has been made: a height taken before the follower is parked can be one block stale — the block connected in between is neither applied live for the not-yet-ready wallet nor rescanned (the batch stops at the stale height and declares the wallet done), so a payment in it is lost for the restored wallet and its address stays listed unused", 1)
	ai := fn(c, pkgWallet, "NtfnsHandler", "asyncImport")
	nh := p.Type(pkgWallet, "NtfnsHandler")
	if ai == nil || nh == nil {
		return
	}
	hs := handShakeOf(p)
	var suspends []ssa.Instruction
	an.Instrs(ai, func(in ssa.Instruction) {
		if hs.isSuspend(in) {
			suspends = append(suspends, in)
		}
	})
	if len(suspends) == 0 {
		c.Fail(sk(ai)+":suspend", "asyncImport no longer parks the follower (anchor lost)", p.Pos(ai.Pos()))
		return
	}
	domBySuspend := func(in ssa.Instruction) bool {
		for _, s := range suspends {
			if instrDominates(s, in) {
				return true
			}
		}
		return false
	}
	n := 0
	check := func(f *ssa.Function, anchor func(in ssa.Instruction) ssa.Instruction) {
		for i, r := range fieldReads(f, nh, "bestBlock") {
			n++
			key := siteKey(f, "bestBlock-read", i+1)
			at := anchor(r)
			if at != nil && domBySuspend(at) {
				c.OK(key, "after the hand-shake", posOf(c, r))
			} else {
				c.Fail(key, "the follower's best height is read before the follower has been parked for this round: a block it connects in between is skipped for the wallet being restored (not applied live, not rescanned)", posOf(c, r))
			}
		}
	}
	check(ai, func(in ssa.Instruction) ssa.Instruction { return in })
	for _, cl := range closuresOf(p, ai) {
		// a literal's reads happen where the literal is run: at the call that receives it
		var site ssa.Instruction
		an.Instrs(ai, func(in ssa.Instruction) {
			cc := an.CallOf(in)
			if cc == nil {
				return
			}
			for _, a := range cc.Args {
				if mc, ok := a.(*ssa.MakeClosure); ok && mc.Fn == ssa.Value(cl) {
					site = in
				}
			}
		})
		check(cl, func(ssa.Instruction) ssa.Instruction { return site })
	}
	if n == 0 {
		c.Fail(sk(ai)+":bestBlock", "asyncImport no longer consults the follower's best height (anchor lost)", p.Pos(ai.Pos()))
	}
}

// ruleUnmarshalLeavesKeyUsable (C19): after SecretKey.Unmarshal — successful or not — the key buffer exists.
func ruleUnmarshalLeavesKeyUsable(c *report.Ctx) {
	p := c.P
	c.Rule("unmarshal-leaves-key-usable", "every return of snacl.(*SecretKey).Unmarshal, the error returns included, is reached with SecretKey.Key allocated (through the store that allocates it or over the `Key != nil` edge): callers register `defer key.Zero()` on a zero-value SecretKey before they unmarshal a request-supplied blob, and Zero dereferences Key — a malformed keystore file (e.g. hex of the wrong length in crypto.privParams) would otherwise panic inside the import's write transaction with the wallet lock held", 1)
	um := fn(c, pkgSnacl, "SecretKey", "Unmarshal")
	sk0 := p.Type(pkgSnacl, "SecretKey")
	if um == nil || sk0 == nil {
		return
	}
	isKeyStore := func(in ssa.Instruction) bool {
		st, ok := in.(*ssa.Store)
		return ok && addrRootsAtField(st.Addr, sk0, "Key")
	}
	s := &an.Search{P: p, Fn: um, Cut: isKeyStore,
		GoalReturn: func(*ssa.Return, *ssa.BasicBlock) bool { return true },
		CutEdge: func(from, to *ssa.BasicBlock) bool {
			ifi, ok := from.Instrs[len(from.Instrs)-1].(*ssa.If)
			if !ok {
				return false
			}
			for _, a := range p.GuardsOnEdge(from, to) {
				if a.If == ifi && a.Op == token.NEQ && a.Y != nil && an.IsNilConst(a.Y) && strings.HasSuffix(p.Desc(a.X), "SecretKey.Key") {
					return true
				}
			}
			return false
		}}
	key := sk(um) + ":Key-allocated-on-every-return"
	if w := s.Run(um.Blocks[0], 0, nil); w != nil {
		c.Fail(key, "Unmarshal can return (with ErrMalformed) before SecretKey.Key is allocated: allocAddrMgrNamespace and the other import paths have already deferred Zero() on the zero-value key, and Zero dereferences the nil Key — a truncated privParams blob in an ImportWallet request panics the server", p.Pos(um.Pos()), w...)
	} else {
		c.OK(key, "Key exists on every return", p.Pos(um.Pos()))
	}
}

// ruleRestoreSliceCoversRequestedCount (C19): the restore scan derives at least as many addresses as it later slices.
func ruleRestoreSliceCoversRequestedCount(c *report.Ctx) {
	p := c.P
	c.Rule("restore-slice-covers-requested-count", "in createManagerKeyScope a list of scanned addresses that is cut at a bound raised to the caller-supplied child count (addressInfo[:nextIndex] with nextIndex >= HDPath.InternalChildNum / ExternalChildNum) is filled by a loop whose continuation test also runs to that count (i < count + gap): the count comes from an ImportMnemonic request or a keystore file, so a scan that stops at the gap limit past the last used address makes the slice expression panic for a count above the gap limit", 2)
	f := fn(c, pkgKeystore, "", "createManagerKeyScope")
	if f == nil {
		return
	}
	n := 0
	for _, fld := range []string{"InternalChildNum", "ExternalChildNum"} {
		// is there a slice cut whose bound can be that field?
		var cut ssa.Instruction
		an.Instrs(f, func(in ssa.Instruction) {
			sl, ok := in.(*ssa.Slice)
			if !ok || sl.High == nil || cut != nil {
				return
			}
			if mentionsField(p, sl.High, fld, 0) {
				cut = in
			}
		})
		if cut == nil {
			continue
		}
		n++
		key := sk(f) + ":scan-runs-to:" + fld
		ok := false
		for _, b := range f.Blocks {
			ifi, isIf := b.Instrs[len(b.Instrs)-1].(*ssa.If)
			if !isIf {
				continue
			}
			cmp, isCmp := ifi.Cond.(*ssa.BinOp)
			if !isCmp || cmp.Op != token.LSS {
				continue
			}
			if call, isCall := cmp.Y.(*ssa.Call); isCall && len(call.Call.Args) == 2 && mentionsField(p, call.Call.Args[0], fld, 0) {
				// a loop test: its block is in a cycle
				if loopHeaderOf(b) != nil || blockInCycle(b) {
					ok = true
				}
			}
		}
		if ok {
			c.OK(key, "the scan loop also runs while i < "+fld+" + gap", posOf(c, cut))
		} else {
			c.Fail(key, "the list cut at a bound that can be HDPath."+fld+" is filled by a scan that does not run to that count: for a caller-supplied count above the gap limit (ImportMnemonic internal_index / external_index, or the child numbers of a keystore file) the slice expression is out of range and the import panics inside the write transaction", posOf(c, cut))
		}
	}
	if n == 0 {
		c.Fail(sk(f)+":scan-cut", "createManagerKeyScope no longer cuts its scanned address lists at the recorded child count (anchor lost)", p.Pos(f.Pos()))
	}
}

func mentionsField(p *an.Prog, v ssa.Value, fld string, depth int) bool {
	if depth > 5 {
		return false
	}
	switch x := v.(type) {
	case *ssa.UnOp:
		if fa, ok := x.X.(*ssa.FieldAddr); ok {
			if st := derefStructOf(fa.X.Type()); st != nil && an.FName(st, fa.Field) == fld {
				return true
			}
		}
		return mentionsField(p, x.X, fld, depth+1)
	case *ssa.Phi:
		for _, e := range x.Edges {
			if mentionsField(p, e, fld, depth+1) {
				return true
			}
		}
	case *ssa.Convert:
		return mentionsField(p, x.X, fld, depth+1)
	case *ssa.BinOp:
		return mentionsField(p, x.X, fld, depth+1) || mentionsField(p, x.Y, fld, depth+1)
	case *ssa.Field:
		if st := derefStructOf(x.X.Type()); st != nil && an.FName(st, x.Field) == fld {
			return true
		}
	}
	return false
}

func blockInCycle(b *ssa.BasicBlock) bool {
	for _, s := range b.Succs {
		if blockReaches(s, b) {
			return true
		}
	}
	return false
}

// ruleSingleIteratorScan (C17): a coin query walks the unspent rows through one iterator.
func ruleSingleIteratorScan(c *report.Ctx) {
	p := c.P
	c.Rule("single-iterator-scan", "in the coin queries of UtxoStore (ScriptAddressBalance, ScriptAddressUnspents and what they reach inside txmgr) a Bucket.NewIterator call is not repeated in a loop: read transactions take no snapshot (recorded C17 finding), but one LevelDB iterator is a snapshot of its own — a scan split over several iterators lets a block commit land between two pages, so the answer holds a coin of an earlier page together with the change the committed block paid for spending it", 2)
	n := 0
	for _, name := range []string{"ScriptAddressBalance", "ScriptAddressUnspents"} {
		root := fn(c, pkgTxmgr, "UtxoStore", name)
		if root == nil {
			continue
		}
		fs := reachIn(p, root, pkgTxmgr)
		for _, g := range append([]*ssa.Function{}, fs...) {
			fs = append(fs, g.AnonFuncs...)
		}
		seen := map[*ssa.Function]bool{}
		for _, g := range fs {
			if seen[g] {
				continue
			}
			seen[g] = true
			for i, s := range invokes(g, pkgDB, "Bucket", "NewIterator") {
				n++
				key := siteKey(g, "NewIterator@"+name, i+1)
				if loopHeaderOf(s.Block()) != nil {
					c.Fail(key, "the query opens a new iterator per page of unspent rows: a block committed between two pages is seen by the later pages only — a spent coin of an earlier page is reported together with its own change (balance and coin list of no single block boundary)", posOf(c, s))
				} else {
					c.OK(key, "one iterator for the whole scan", posOf(c, s))
				}
			}
		}
	}
	if n == 0 {
		c.Fail("coin-query-iterators", "the coin queries no longer iterate the unspent bucket (anchor lost)", "")
	}
}

// ruleStakingUseMarksStandardForm (C12, C07): an address whose only history is staking deposits is listed as used.
func ruleStakingUseMarksStandardForm(c *report.Ctx) {
	p := c.P
	c.Rule("staking-use-marks-standard-form", "WalletManager.GetAddresses, when it merges the staking-form address records into the standard listing, sets Used on the standard entry it found in the listing (the comma-ok lookup hit) for a staking record that is used: a restored wallet registers every rediscovered key under its standard form with height 0 while a staking deposit marks only the staking-form record, so without this step an address paid to only through staking deposits is listed unused after a restore (and counted as unused by the address-gap accounting)", 1)
	f := fn(c, pkgWallet, "WalletManager", "GetAddresses")
	ad := p.Type(pkgTxmgr, "AddressDetail")
	if f == nil || ad == nil {
		return
	}
	ok := false
	var at ssa.Instruction
	for _, st := range fieldStores(f, ad, "Used") {
		s := st.(*ssa.Store)
		fa, isFA := s.Addr.(*ssa.FieldAddr)
		if !isFA {
			continue
		}
		// the entry comes from a comma-ok lookup in the listing map …
		ex, isEx := fa.X.(*ssa.Extract)
		if !isEx {
			continue
		}
		lk, isLk := ex.Tuple.(*ssa.Lookup)
		if !isLk || !lk.CommaOk {
			continue
		}
		// … the store runs under ok == true and under the staking record's Used flag (or copies that flag)
		gs := p.GuardsOf(st)
		underOK := an.AnyAtom(gs, func(a an.Atom) bool {
			e2, is := a.X.(*ssa.Extract)
			return is && a.Op == token.ILLEGAL && a.Truth && e2.Tuple == ssa.Value(lk) && e2.Index == 1
		})
		usedFlag := func(v ssa.Value) bool {
			ld, is := v.(*ssa.UnOp)
			return is && isFieldLoad(ld, ad, "Used")
		}
		underUsed := an.AnyAtom(gs, func(a an.Atom) bool { return a.Op == token.ILLEGAL && a.Truth && a.X != nil && usedFlag(a.X) })
		if underOK && (underUsed || usedFlag(s.Val)) {
			ok = true
			at = st
		}
	}
	key := sk(f) + ":used-staking=>standard-used"
	if ok {
		c.OK(key, "a used staking record marks the listed standard entry used", posOf(c, at))
	} else {
		c.Fail(key, "the merge of staking-form records no longer marks an already listed standard entry as used when the staking record is used: after a restore (standard rows pre-registered with height 0) an address that only ever received staking deposits is listed unused although the chain pays it", p.Pos(f.Pos()))
	}
}

// ruleSuspendRefusesOnlyOnQuit (C20): the hand-shake gives up only when the handler is shutting down.
func ruleSuspendRefusesOnlyOnQuit(c *report.Ctx) {
	p := c.P
	c.Rule("suspend-refuses-only-on-quit", "every select that offers the suspend signal (a send on NtfnsHandler.sigSuspend) is blocking and has exactly one other way out: the receive from NtfnsHandler.quit. asyncRemove turns 'not parked' into ErrTaskAbort and the worker deliberately does not re-queue an aborted removal (the process is going down) — any further case (a timer while the follower is busy, a default) silently drops an accepted removal, which then never finishes", 1)
	n := 0
	for _, f := range p.ModFuncs {
		if pk := an.FuncPkg(f); pk == nil || pk.Path() != pkgWallet {
			continue
		}
		cnt := 0
		an.Instrs(f, func(in ssa.Instruction) {
			sel, ok := in.(*ssa.Select)
			if !ok {
				return
			}
			offers := false
			for _, st := range sel.States {
				if st.Dir == types.SendOnly && strings.HasSuffix(p.Desc(st.Chan), "sigSuspend") {
					offers = true
				}
			}
			if !offers {
				return
			}
			n++
			cnt++
			key := siteKey(f, "suspend-select", cnt)
			var extra []string
			hasQuit := false
			for _, st := range sel.States {
				d := p.Desc(st.Chan)
				switch {
				case st.Dir == types.SendOnly && strings.HasSuffix(d, "sigSuspend"):
				case st.Dir == types.RecvOnly && strings.HasSuffix(d, "NtfnsHandler.quit"):
					hasQuit = true
				default:
					extra = append(extra, d)
				}
			}
			if !sel.Blocking {
				extra = append(extra, "default")
			}
			switch {
			case !hasQuit:
				c.Fail(key, "the suspend hand-shake does not watch the quit channel", posOf(c, in))
			case len(extra) > 0:
				c.Fail(key, "the suspend hand-shake can also end on "+strings.Join(extra, ", ")+": the task then reports 'not parked', which the removal path treats as shutdown (ErrTaskAbort, not re-queued) — an accepted removal is silently dropped while the process keeps running", posOf(c, in))
			default:
				c.OK(key, "send on sigSuspend or receive from quit, nothing else", posOf(c, in))
			}
		})
	}
	if n == 0 {
		c.Fail("suspend-select", "no select offering the suspend signal found (anchor lost)", "")
	}
}

func constantInt64FromString(s string) (int64, bool) {
	neg := false
	if strings.HasPrefix(s, "-") {
		neg = true
		s = s[1:]
	}
	if s == "" {
		return 0, false
	}
	var v int64
	for _, ch := range s {
		if ch < '0' || ch > '9' {
			return 0, false
		}
		v = v*10 + int64(ch-'0')
	}
	if neg {
		v = -v
	}
	return v, true
}

func isBoolT(t types.Type) bool {
	b, ok := t.Underlying().(*types.Basic)
	return ok && b.Kind() == types.Bool
}

// ruleEveryIssuedAddressCached (C04): an address that was derived, stored and returned is also findable in memory.
func ruleEveryIssuedAddressCached(c *report.Ctx) {
	p := c.P
	c.Rule("every-issued-address-cached", "AddrManager.updateManagedAddress puts every address it is given into the in-memory table addrs (no iteration over its list returns to the loop head without the map update): the addresses were already derived, written to the database and handed to the caller — one that is skipped here (e.g. because an address of the OTHER branch has the same child index) cannot be looked up for signing and its incoming payments are ignored until the keystore is reloaded", 1)
	f := fn(c, pkgKeystore, "AddrManager", "updateManagedAddress")
	am := p.Type(pkgKeystore, "AddrManager")
	if f == nil || am == nil {
		return
	}
	var par *ssa.Parameter
	for _, q := range f.Params {
		if _, isSlice := q.Type().Underlying().(*types.Slice); isSlice {
			par = q
		}
	}
	var start ssa.Instruction
	an.Instrs(f, func(in ssa.Instruction) {
		if ia, ok := in.(*ssa.IndexAddr); ok && par != nil && ia.X == ssa.Value(par) && start == nil && loopHeaderOf(in.Block()) != nil {
			start = in
		}
	})
	key := sk(f) + ":each=>addrs[]="
	if start == nil {
		c.Fail(key, "no loop over the issued addresses found (anchor lost)", p.Pos(f.Pos()))
		return
	}
	hdr := loopHeaderOf(start.Block())
	isPut := func(in ssa.Instruction) bool {
		mu, ok := in.(*ssa.MapUpdate)
		if !ok {
			return false
		}
		ld, ok := mu.Map.(*ssa.UnOp)
		return ok && isFieldLoad(ld, am, "addrs")
	}
	idx := 0
	for i, in := range start.Block().Instrs {
		if in == start {
			idx = i
		}
	}
	if w := p.ReachBlockWithout(start.Block(), idx, nil, func(b, pred *ssa.BasicBlock) bool { return b == hdr }, isPut); w != nil {
		c.Fail(key, "an issued address can be left out of the in-memory address table: it exists in the database and was returned to the caller, but GetManagedAddressBy… / SignHash do not find it (\"address not found\") and payments to it are not recognised until restart", posOf(c, start), w...)
	} else {
		c.OK(key, "every address of the list is cached", posOf(c, start))
	}
}
