package rules

// Rules added after the sixth round of seeded changes (seeds Cxx-11, Cxx-12).

import (
	"go/token"
	"go/types"
	"strings"

	"golang.org/x/tools/go/ssa"

	"verif/internal/an"
	"verif/internal/report"
)

var _ = token.ADD
var _ types.Type
var _ = strings.Contains
var _ = report.New
var _ = an.Set

// ruleUnminedCreditCheckedPerOutput (C10, C09): every output of a received transaction is checked against what is
// already recorded, not just the first.
func ruleUnminedCreditCheckedPerOutput(c *report.Ctx) {
	p := c.P
	c.Rule("unmined-credit-checked-per-output", "in addUnminedCredits every putRawUnminedCredit is dominated, inside the same iteration over the relevant outputs, by the lookups that refuse an output already recorded as pending (existsRawUnminedCredit) or as a mined unspent (existsRawUnspent): insertMemPoolTx has no other protection against a confirmed transaction being announced again, and the first relevant output may have been spent since while a later staking/binding output is still locked — checked once per transaction, that deposit is recorded a second time as pending", 1)
	f := fn(c, pkgTxmgr, "UtxoStore", "addUnminedCredits")
	put := fn(c, pkgTxmgr, "", "putRawUnminedCredit")
	e1 := fn(c, pkgTxmgr, "", "existsRawUnminedCredit")
	e2 := fn(c, pkgTxmgr, "", "existsRawUnspent")
	if f == nil || put == nil || e1 == nil || e2 == nil {
		return
	}
	puts := calls(f, put)
	if len(puts) == 0 {
		c.Fail(sk(f)+":putRawUnminedCredit", "addUnminedCredits no longer records unmined credits (anchor lost)", p.Pos(f.Pos()))
		return
	}
	for i, s := range puts {
		hdr := loopHeaderOf(s.Block())
		key := siteKey(f, "putRawUnminedCredit~checked", i+1)
		var miss []string
		for _, chk := range []*ssa.Function{e1, e2} {
			ok := false
			for _, cs := range calls(f, chk) {
				if hdr != nil && loopHeaderOf(cs.Block()) == hdr && instrDominates(cs, s) {
					ok = true
				}
			}
			if !ok {
				miss = append(miss, nm(chk))
			}
		}
		if hdr == nil {
			c.Fail(key, "the unmined credit is not written per relevant output (no enclosing loop)", posOf(c, s))
		} else if len(miss) > 0 {
			c.Fail(key, "an output of a received transaction is recorded as pending without "+strings.Join(miss, " / ")+" having been asked about that very output in this iteration: a mined transaction announced again whose first relevant output is spent is accepted, and its still-locked deposit appears a second time, as pending", posOf(c, s))
		} else {
			c.OK(key, "both lookups are made for the output being recorded", posOf(c, s))
		}
	}
}

// ruleEveryRecordedSpenderConsidered (C09): a confirmed transaction purges every pending spender of its inputs.
func ruleEveryRecordedSpenderConsidered(c *report.Ctx) {
	p := c.P
	c.Rule("every-recorded-spender-considered", "removeDoubleSpends walks the whole list fetchUnminedInputSpendTxHashes returns for each input — it is not skipped or cut on the list's length (only an empty list has nothing to do): the confirming transaction need never have been pending itself (first seen in a block, or replacing a rolled-back one), so a single recorded spender can be the conflicting transaction that must vanish with its descendants", 1)
	f := fn(c, pkgTxmgr, "TxStore", "removeDoubleSpends")
	fetch := fn(c, pkgTxmgr, "", "fetchUnminedInputSpendTxHashes")
	if f == nil || fetch == nil {
		return
	}
	fs := calls(f, fetch)
	if len(fs) == 0 {
		c.Fail(sk(f)+":fetch", "removeDoubleSpends no longer fetches the pending spenders of an input (anchor lost)", p.Pos(f.Pos()))
		return
	}
	for i, s := range fs {
		key := siteKey(f, "spenders-len-test", i+1)
		res, _ := s.(ssa.Value)
		bad := ""
		var badAt ssa.Instruction
		if res != nil && res.Referrers() != nil {
			for _, r := range *res.Referrers() {
				call, ok := r.(*ssa.Call)
				if !ok {
					continue
				}
				if b, isB := call.Call.Value.(*ssa.Builtin); !isB || b.Name() != "len" {
					continue
				}
				for _, lr := range *call.Referrers() {
					cmp, ok := lr.(*ssa.BinOp)
					if !ok {
						continue
					}
					k, isK := cmp.Y.(*ssa.Const)
					other := cmp.X
					if !isK {
						k, isK = cmp.X.(*ssa.Const)
						other = cmp.Y
					}
					if !isK || other != ssa.Value(call) || k.Value == nil {
						continue
					}
					// comparisons that only single out the empty list are harmless: ==0, !=0, >0, <1, >=1, <=0
					v := k.Value.ExactString()
					harmless := v == "0" || (v == "1" && (cmp.Op == token.LSS || cmp.Op == token.GEQ))
					if _, isIf := firstIfUser(cmp); isIf && !harmless {
						bad = "len(spenders) " + cmp.Op.String() + " " + v
						badAt = cmp
					}
				}
			}
		}
		if bad != "" {
			c.Fail(key, "the purge of pending double spends branches on "+bad+": with exactly one recorded spender the loop is skipped, but that spender is the conflicting pending transaction whenever the confirmed transaction was never pending itself — it and its descendants stay pending forever and keep the coins they spend flagged", posOf(c, badAt))
		} else {
			c.OK(key, "every recorded spender reaches the conflict purge", posOf(c, s))
		}
	}
}

func firstIfUser(v ssa.Value) (*ssa.If, bool) {
	if v.Referrers() == nil {
		return nil, false
	}
	for _, r := range *v.Referrers() {
		if ifi, ok := r.(*ssa.If); ok {
			return ifi, true
		}
		if u, ok := r.(*ssa.UnOp); ok {
			if ifi, ok := firstIfUser(u); ok {
				return ifi, true
			}
		}
	}
	return nil, false
}

// rulePendingInputRowOwners (C09): a pending-input row is deleted for an input of a transaction that leaves the pending
// set, or by the wallet-removal path — never for an outpoint just because the transaction that created it confirmed.
func rulePendingInputRowOwners(c *report.Ctx) {
	p := c.P
	c.Rule("pending-input-row-owners", "deleteRawUnminedInput is called with the key of a transaction's input (canonicalOutPoint of a TxIn.PreviousOutPoint) or from code only the wallet removal reaches: the row 'outpoint -> pending spenders' is the only record that a still-pending child spends an output, so deleting it when the output's own transaction confirms un-flags the coin (spent_by_unmined false, selectable again) and detaches the child from later conflict purges", 3)
	del := fn(c, pkgTxmgr, "", "deleteRawUnminedInput")
	ar := fn(c, pkgWallet, "NtfnsHandler", "asyncRemove")
	if del == nil || ar == nil {
		return
	}
	removalOnly := func(f *ssa.Function) bool {
		// every module caller chain of f starts at asyncRemove
		seen := map[*ssa.Function]bool{}
		var up func(g *ssa.Function, d int) bool
		up = func(g *ssa.Function, d int) bool {
			if g == ar {
				return true
			}
			if d > 30 {
				return false
			}
			if seen[g] {
				return true
			}
			seen[g] = true
			callers := p.Callers(g)
			n := 0
			for _, cl := range callers {
				if cl.E.Kind == "ref" || !p.InModule(cl.From) {
					continue
				}
				n++
				if !up(apiOwnerOrSelf(p, cl.From), d+1) {
					return false
				}
			}
			return n > 0
		}
		return up(f, 0)
	}
	n := 0
	for _, f := range p.ModFuncs {
		if pk := an.FuncPkg(f); pk == nil || pk.Path() != pkgTxmgr {
			continue
		}
		for i, s := range calls(f, del) {
			n++
			key := siteKey(f, "deleteRawUnminedInput-key", i+1)
			d := p.Desc(an.CallOf(s).Args[1])
			switch {
			case strings.Contains(d, "PreviousOutPoint"):
				c.OK(key, "key of an input's previous outpoint", posOf(c, s), d)
			case removalOnly(f):
				c.OK(key, "wallet-removal path", posOf(c, s))
			default:
				c.Fail(key, "a pending-input row is deleted under a key that is not an input's previous outpoint ("+d+") outside the wallet-removal path: when a pending transaction confirms, the rows of its OUTPUTS record the still-pending children that spend them — deleting them un-flags those coins and the children never vanish when a conflict confirms", posOf(c, s))
			}
		}
	}
	if n == 0 {
		c.Fail("deleteRawUnminedInput", "no deleter of pending-input rows found (anchor lost)", "")
	}
}
