package rules

import (
	"fmt"
	"go/types"
	"sort"
	"strings"

	"golang.org/x/tools/go/ssa"

	"verif/internal/an"
	"verif/internal/lockset"
	"verif/internal/report"
)

type lockRun struct {
	res   *lockset.Result
	kind  map[*ssa.Function]string // root → api|handle|worker|listener|stop
	roots []*ssa.Function
}

var lockCache = map[*an.Prog]*lockRun{}

// handlerToken is the pseudo-lock modelling the suspend/resume hand-shake: the handler goroutine
// holds it while running; the worker holds it between a successful suspend and resume.
const handlerToken = "H(handler-parked)"

func lockAnalysis(c *report.Ctx) *lockRun {
	p := c.P
	if r, ok := lockCache[p]; ok {
		return r
	}
	lr := &lockRun{kind: map[*ssa.Function]string{}}
	// roots
	apiT := p.Type(pkgAPI, "APIServer")
	if apiT != nil {
		for _, f := range p.ModFuncs {
			if f.Signature.Recv() == nil || f.Parent() != nil {
				continue
			}
			if n := an.NamedOf(f.Signature.Recv().Type()); n == nil || n.Obj() != apiT.Obj() {
				continue
			}
			ps := f.Signature.Params()
			if ps.Len() >= 1 && typeStr(ps.At(0).Type()) == "context.Context" && f.Object() != nil && f.Object().Exported() {
				lr.kind[f] = "api"
				lr.roots = append(lr.roots, f)
			}
		}
	}
	gr, _ := quitWgGoroutines(c)
	for _, g := range gr {
		k := "worker"
		if nm(g) == "handle" {
			k = "handle"
		}
		lr.kind[g] = k
		lr.roots = append(lr.roots, g)
	}
	for _, n := range []string{"OnBlockConnected", "OnTransactionReceived"} {
		if f := p.Fn(pkgWallet, "NtfnsHandler", n); f != nil {
			lr.kind[f] = "listener"
			lr.roots = append(lr.roots, f)
		}
	}
	sort.Slice(lr.roots, func(i, j int) bool { return an.CanonKeyOf(lr.roots[i]) < an.CanonKeyOf(lr.roots[j]) })
	cfg := &lockset.Config{P: p, Acquire: map[*ssa.Function]string{}, Release: map[*ssa.Function]string{}, RootHeld: map[*ssa.Function][]string{}, Watch: map[*ssa.Function]string{}}
	// the token changes hands where the rendezvous happens: the send on sigSuspend / sigResume (wherever that code lives)
	cfg.AcquireAt = func(in ssa.Instruction) string {
		if _, isCall := in.(*ssa.Call); !isCall && sendsOn(p, in, "sigSuspend") {
			return handlerToken
		}
		return ""
	}
	cfg.ReleaseAt = func(in ssa.Instruction) string {
		if _, isCall := in.(*ssa.Call); !isCall && sendsOn(p, in, "sigResume") {
			return handlerToken
		}
		return ""
	}
	for f, k := range lr.kind {
		if k == "handle" {
			cfg.RootHeld[f] = []string{handlerToken}
		}
	}
	for _, n := range []string{"Update", "View"} {
		if f := p.Fn(pkgDB, "", n); f != nil {
			cfg.Watch[f] = "mwdb." + n
		}
	}
	var rootTypes []*types.Named
	for _, t := range [][2]string{{pkgWallet, "WalletManager"}, {pkgWallet, "NtfnsHandler"}, {pkgAPI, "APIServer"}, {pkgKeystore, "KeystoreManager"}} {
		rootTypes = append(rootTypes, p.Type(t[0], t[1]))
	}
	cfg.Shared = lockset.SharedTypes(p, rootTypes)
	lr.res = lockset.Analyze(cfg, lr.roots)
	lockCache[p] = lr
	return lr
}

// concurrent: may two roots of these kinds run at the same time?
func concurrentKinds(a, b string, same bool) bool {
	if a == "api" || b == "api" || a == "listener" || b == "listener" {
		return true
	}
	if same {
		return false // a single goroutine
	}
	return true // handle vs worker (separated only by the handler token)
}

// ruleLockOrder: C20 (3).
func ruleLockOrder(c *report.Ctx) {
	p := c.P
	lr := lockAnalysis(c)
	c.Rule("lock-order", "the acquisition order over all module locks (including the LevelDB writer mutex) is acyclic, and no non-reentrant lock is re-acquired while held", 4)
	c.Extra["lockset_contexts"] = lr.res.Contexts
	c.Extra["lockset_functions"] = len(lr.res.Funcs)
	edges := map[[2]string]lockset.OrderEdge{}
	for _, e := range lr.res.Order {
		if strings.HasPrefix(e.From, "H(") || strings.HasPrefix(e.To, "H(") {
			continue
		}
		k := [2]string{e.From, e.To}
		if _, ok := edges[k]; !ok {
			edges[k] = e
		}
	}
	// self edges
	locks := map[string]bool{}
	for k, e := range edges {
		locks[k[0]], locks[k[1]] = true, true
		if k[0] == k[1] {
			c.Fail("lock-order:"+k[0]+"->"+k[1], "lock "+k[0]+" is acquired while already held (sync mutexes are not reentrant): self-deadlock", p.InstrPos(e.In), "in "+sk(e.Fn)+" (root "+sk(e.Root)+")")
		}
	}
	// cycles (DFS)
	adj := map[string][]string{}
	for k := range edges {
		if k[0] != k[1] {
			adj[k[0]] = append(adj[k[0]], k[1])
		}
	}
	for k := range adj {
		sort.Strings(adj[k])
	}
	state := map[string]int{}
	var stack []string
	var cyc []string
	var dfs func(n string) bool
	dfs = func(n string) bool {
		state[n] = 1
		stack = append(stack, n)
		for _, m := range adj[n] {
			if state[m] == 1 {
				for i, s := range stack {
					if s == m {
						cyc = append([]string{}, stack[i:]...)
					}
				}
				cyc = append(cyc, m)
				return true
			}
			if state[m] == 0 && dfs(m) {
				return true
			}
		}
		stack = stack[:len(stack)-1]
		state[n] = 2
		return false
	}
	var names []string
	for n := range adj {
		names = append(names, n)
	}
	sort.Strings(names)
	found := false
	for _, n := range names {
		if state[n] == 0 && dfs(n) {
			found = true
			break
		}
	}
	if found {
		var w []string
		for i := 0; i+1 < len(cyc); i++ {
			e := edges[[2]string{cyc[i], cyc[i+1]}]
			w = append(w, fmt.Sprintf("%s -> %s in %s @%s (root %s)", cyc[i], cyc[i+1], sk(e.Fn), p.InstrPos(e.In), sk(e.Root)))
		}
		c.Fail("lock-order:cycle:"+strings.Join(cyc, "->"), "locks are acquired in a cyclic order: two goroutines taking them in opposite orders deadlock", "", w...)
	}
	var es []string
	for k := range edges {
		es = append(es, k[0]+"->"+k[1])
	}
	sort.Strings(es)
	for _, e := range es {
		if !found {
			c.OK("lock-order:"+e, "edge of an acyclic order", "")
		}
	}
	c.Extra["lock_order_edges"] = es

	c.Rule("no-blocking-under-memMtx", "while NtfnsHandler.memMtx is held no channel operation and no database transaction is started (the handler and the API both take it on hot paths)", 1)
	bad := false
	n := 0
	for _, ev := range lr.res.Events {
		if _, held := ev.Locks["NtfnsHandler.memMtx"]; !held {
			continue
		}
		n++
		if strings.HasPrefix(ev.What, "chan-") || ev.What == "select" || strings.HasPrefix(ev.What, "call:mwdb.") {
			bad = true
			c.Fail(sk(ev.Fn)+":"+strings.SplitN(ev.What, ":", 2)[0]+"-under-memMtx", ev.What+" while holding NtfnsHandler.memMtx: a blocked holder stalls block processing and every API call that takes the mutex", p.InstrPos(ev.In))
		}
	}
	if !bad {
		c.OK("memMtx:critical-sections", fmt.Sprintf("%d lock-order edges, no blocking operation under memMtx", len(edges)), "")
	}
}
