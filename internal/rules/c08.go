package rules

import (
	"go/token"
	"go/types"
	"sort"
	"strings"

	"golang.org/x/tools/go/ssa"

	"verif/internal/an"
	"verif/internal/report"
)

func init() {
	register(&Check{
		ID: "C08",
		Explain: "Structural necessary conditions of complete and isolated wallet removal, decided on the bucket schema + call graph + SSA: " +
			"(1) coverage: every bucket the ledger or the keystore writes per-wallet data into has a deleter reachable from the removal task (the global sync bucket is the one named exception); " +
			"(2) shared transactions survive: tx records and pending records are deleted only under the 'removable' verdict, which asks all managed wallets (not the API's currently selected one) whether another wallet owns an output; the background tasks never depend on the selected wallet; " +
			"(3) gates: removal is requested only after the passphrase check and only for a ready wallet; " +
			"(4) the final step (status + keystore) is in the transaction of the round that reported finish, and a round reports finish only when its credit scan was exhausted.",
		NotDec: "that every record is found by the prefix/script-hash scans (values); other wallets' balances after removal of a co-owned transaction.",
		Run:    runC08,
	})
}

func runC08(c *report.Ctx) {
	ruleLoopCellAddressNotRetained(c)
	p := c.P
	ar := fn(c, pkgWallet, "NtfnsHandler", "asyncRemove")
	if ar == nil {
		return
	}
	// ---- (1) coverage --------------------------------------------------------------------------------------
	c.Rule("removal-coverage", "every per-wallet bucket that is written has a Delete/Clear/DeleteBucket reachable from asyncRemove", 12)
	reached, _ := p.Reach([]*ssa.Function{ar}, an.ReachOpts{})
	ops := schemaOps(p)
	// labels are grouped: each txmgr bucket is its own group; the keystore has two groups — the
	// account-id index ("aid" / accountIDMeta) and the per-account subtree under the keystore-manager
	// bucket (account bucket and its "pub" sub-bucket, however the handle was obtained), which is
	// deleted as a whole by DeleteBucket on the keystore-manager bucket.
	group := func(op bucketOp) string {
		pk := an.FuncPkg(op.Fn)
		if pk != nil && pk.Path() == pkgKeystore {
			if strings.Contains(op.Bucket, `"aid"`) && !strings.HasPrefix(op.Bucket, "Bucket(") || op.Bucket == "accountIDMeta" {
				return "keystore:account-id-index"
			}
			return "keystore:account-subtree"
		}
		return op.Bucket
	}
	puts := map[string]bool{}
	dels := map[string][]string{}
	for _, op := range ops {
		g := group(op)
		switch op.Method {
		case "Put":
			puts[g] = true
		case "Delete", "Clear", "DeleteBucket":
			ctxFn := op.Fn
			if len(op.Ascent) > 0 {
				ctxFn = op.Ascent[len(op.Ascent)-1].Parent()
			}
			if reached[ctxFn] {
				if op.Method == "DeleteBucket" && op.Bucket == "ksMgrMeta" {
					g = "keystore:account-subtree"
				}
				dels[g] = append(dels[g], sk(ctxFn)+":"+op.Method)
			}
		}
	}
	var names []string
	for b := range puts {
		names = append(names, b)
	}
	sort.Strings(names)
	for _, b := range names {
		if strings.HasPrefix(b, "?") {
			continue
		}
		if isGlobalBucket(b) {
			c.Exception(b, "global bucket (synced-to chain: height → block hash; no wallet id or wallet script hash in key or value)")
			continue
		}
		if ds := dels[b]; len(ds) > 0 {
			c.OK("bucket:"+b, "deleted on the removal path by "+strings.Join(uniq(ds), ", "), "")
		} else {
			c.Fail("bucket:"+b, "bucket "+b+" is written with per-wallet data but no Delete/Clear/DeleteBucket on it is reachable from asyncRemove: records of a removed wallet stay in the database", "")
		}
	}

	// ---- (2) shared transactions -----------------------------------------------------------------------------
	c.Rule("shared-tx-survives", "transaction records are deleted only under the removable verdict; the verdict and all background code consult all managed wallets, never the API's selected wallet", 3)
	rrt := fn(c, pkgTxmgr, "TxStore", "RemoveRelevantTx")
	removable := fn(c, pkgTxmgr, "TxStore", "removableTxForRemoveWallet")
	delRawUnmined := fn(c, pkgTxmgr, "", "deleteRawUnmined")
	if rrt != nil && removable != nil {
		isRemovable := func(a an.Atom) bool {
			if a.Op != token.ILLEGAL || !a.Truth {
				return false
			}
			ex, ok := a.X.(*ssa.Extract)
			if !ok || ex.Index != 0 {
				return false
			}
			call, ok := ex.Tuple.(*ssa.Call)
			return ok && call.Call.StaticCallee() == removable
		}
		var sites []ssa.Instruction
		for _, op := range ops {
			if op.Fn == rrt && op.Method == "Delete" && op.Bucket == "nsTxRecords" {
				sites = append(sites, op.Site)
			}
		}
		sites = append(sites, calls(rrt, delRawUnmined)...)
		// the block-record bookkeeping (tx hashes to drop from their block's record) is a deletion too
		an.Instrs(rrt, func(in ssa.Instruction) {
			mu, ok := in.(*ssa.MapUpdate)
			if !ok {
				return
			}
			if mt, isM := mu.Map.Type().Underlying().(*types.Map); isM {
				if n := an.NamedOf(mt.Key()); n != nil && n.Obj().Name() == "Hash" {
					// inner set of blkDeleted: map[wire.Hash]struct{} reached from a map[uint64]…
					if strings.Contains(p.Desc(mu.Map), "MakeMap") {
						sites = append(sites, in)
					}
				}
			}
		})
		if len(sites) < 3 {
			c.Fail(sk(rrt)+":record-deletes", "anchor lost: RemoveRelevantTx no longer deletes tx/pending records", p.Pos(rrt.Pos()))
		}
		for i, s := range sites {
			key := siteKey(rrt, "record-delete~removable", i+1)
			if an.AnyAtom(p.GuardsOf(s), isRemovable) {
				c.OK(key, "under removableTxForRemoveWallet == true", posOf(c, s))
			} else {
				c.Fail(key, "a transaction record is deleted without the removable verdict: a transaction that also pays/spends another wallet disappears from that wallet", posOf(c, s))
			}
		}
	}
	ruleBackgroundSelectedWalletFree(c)

	// ---- (3) gates ----------------------------------------------------------------------------------------------
	c.Rule("removal-gates", "removal needs the wallet's passphrase and a ready wallet", 2)
	rw := fn(c, pkgWallet, "WalletManager", "RemoveWallet")
	onRm := fn(c, pkgWallet, "NtfnsHandler", "OnRemoveWallet")
	chk := fn(c, pkgKeystore, "KeystoreManager", "CheckPrivPassphrase")
	if rw != nil && onRm != nil && chk != nil {
		for _, s := range calls(rw, onRm) {
			dom := p.DominatedBySuccess(s, an.Set(chk))
			okArgs := false
			if dom != nil {
				// same wallet id checked and removed
				a1 := an.CallOf(dom).Args
				a2 := an.CallOf(s).Args
				if len(a1) >= 2 && len(a2) >= 2 && a1[1] == a2[1] {
					okArgs = true
				}
			}
			if dom != nil && okArgs {
				c.OK(sk(rw)+":passphrase-gate", "OnRemoveWallet(id) dominated by CheckPrivPassphrase(id, pass) success", posOf(c, s))
			} else {
				c.Fail(sk(rw)+":passphrase-gate", "a wallet can be scheduled for removal without its passphrase having been verified for that wallet id", posOf(c, s))
			}
		}
	}
	mark := fn(c, pkgTxmgr, "SyncStore", "MarkDeleteWallet")
	ready := fn(c, pkgTxmgr, "WalletStatus", "Ready")
	if onRm != nil && mark != nil && ready != nil {
		found := false
		for _, af := range reachIn(p, onRm, pkgWallet) {
			for _, s := range calls(af, mark) {
				found = true
				if an.AnyAtom(p.GuardsOf(s), func(a an.Atom) bool { return an.BoolCall(a, ready, "", true) }) {
					c.OK(sk(onRm)+":ready-gate", "MarkDeleteWallet under ws.Ready()", posOf(c, s))
				} else {
					c.Fail(sk(onRm)+":ready-gate", "a wallet that is still importing can be marked for removal (the import task and the removal task would interleave on its records)", posOf(c, s))
				}
			}
		}
		if !found {
			c.Fail(sk(onRm)+":ready-gate", "anchor lost: OnRemoveWallet no longer marks the wallet through MarkDeleteWallet", p.Pos(onRm.Pos()))
		}
	}

	// ---- (4) final step -------------------------------------------------------------------------------------------
	c.Rule("final-step", "status and keystore are deleted in the transaction of the round whose scan finished, and finish is reported only when the credit scan was exhausted", 3)
	delWS := fn(c, pkgTxmgr, "SyncStore", "DeleteWalletStatus")
	delKS := fn(c, pkgKeystore, "KeystoreManager", "DeleteKeystore")
	if rrt != nil && delWS != nil && delKS != nil {
		for _, af := range closuresOf(p, ar) {
			if len(calls(af, rrt)) == 0 {
				continue
			}
			for _, t := range []struct {
				f    *ssa.Function
				name string
			}{{delWS, "DeleteWalletStatus"}, {delKS, "DeleteKeystore"}} {
				ss := calls(af, t.f)
				key := sk(af) + ":" + t.name + "-under-finish"
				if len(ss) == 0 {
					c.Fail(key, t.name+" is not in the transaction of the final removal round: a crash after the last round leaves a "+map[string]string{"DeleteWalletStatus": "removal flag without a keystore (the wallet list fails forever)", "DeleteKeystore": "keystore without status"}[t.name], p.Pos(af.Pos()))
					continue
				}
				for _, s := range ss {
					if an.AnyAtom(p.GuardsOf(s), func(a an.Atom) bool {
						if a.Op != token.ILLEGAL || !a.Truth {
							return false
						}
						if strings.Contains(p.Desc(a.X), "RemoveRelevantTx") || strings.HasPrefix(p.Desc(a.X), "*free:*bool") || strings.Contains(p.Desc(a.X), "free:") {
							return true
						}
						// the verdict kept in a field of the step's own state object: stored from RemoveRelevantTx earlier in this body
						if ld, isLd := a.X.(*ssa.UnOp); isLd && ld.Op == token.MUL {
							if fa, isFA := ld.X.(*ssa.FieldAddr); isFA {
								for _, st := range fieldStores(af, an.NamedOf(fa.X.Type()), an.FName(derefStructT(fa.X.Type()), fa.Field)) {
									if strings.Contains(p.Desc(st.(*ssa.Store).Val), "RemoveRelevantTx") && instrDominates(st, ld) {
										return true
									}
								}
							}
						}
						return false
					}) {
						c.OK(key, "guarded by the finish verdict of this round", posOf(c, s))
					} else {
						c.Fail(key, t.name+" runs although the round did not report finish: the wallet is dropped while records remain", posOf(c, s))
					}
				}
			}
		}
	}
	rrc := fn(c, pkgTxmgr, "UtxoStore", "removeRelevantCredit")
	if rrc != nil {
		// the iteration loop: block containing invoke Iterator.Next
		var hdr *ssa.BasicBlock
		an.Instrs(rrc, func(in ssa.Instruction) {
			if cc := an.CallOf(in); cc != nil && cc.IsInvoke() && cc.Method.Name() == "Next" && isNamedIface(cc.Value.Type(), pkgDB, "Iterator") {
				hdr = in.Block()
			}
		})
		key := sk(rrc) + ":finish-only-when-exhausted"
		if hdr == nil {
			// the scan may live in a literal of the function (an iterator helper's body spliced in, the per-credit work a
			// callback): the verdict is then a variable both share
			if !finishCellForm(c, rrc, key) {
				c.Fail(key, "anchor lost: no iterator loop in removeRelevantCredit", p.Pos(rrc.Pos()))
			}
		} else {
			okAll, any := true, false
			progress := true
			for _, b := range rrc.Blocks {
				r, isRet := b.Instrs[len(b.Instrs)-1].(*ssa.Return)
				if !isRet || len(r.Results) != 3 || p.ClassifyReturn(r, nil) == an.RetError {
					continue
				}
				if !hdr.Dominates(b) {
					continue // early return before the scan (nothing to scan)
				}
				any = true
				rv := an.RetOperand(r, 1)
				ph, isPhi := rv.(*ssa.Phi)
				if !isPhi {
					if k, isK := rv.(*ssa.Const); isK && k.Value != nil && k.Value.ExactString() == "true" {
						okAll = false
					}
					continue
				}
				for i, e := range ph.Edges {
					pred := ph.Block().Preds[i]
					k, isK := e.(*ssa.Const)
					isTrue := isK && k.Value != nil && k.Value.ExactString() == "true"
					if pred != hdr && (isTrue || !isK) {
						okAll = false
					}
					// a round is cut short only at a credit of the wallet being removed (under the script-hash test):
					// cut short at foreign credits, every round re-reads the same foreign prefix, deletes nothing and
					// reports "not finished" for ever
					if isK && !isTrue && !ownCreditGuard(p, rrc, p.GuardsOnEdge(pred, ph.Block())) {
						progress = false
					}
				}
			}
			if progress {
				c.OK(sk(rrc)+":round-cut-only-at-own-credit", "the scan reports 'not finished' only under the script-hash test", p.Pos(rrc.Pos()))
			} else {
				c.Fail(sk(rrc)+":round-cut-only-at-own-credit", "a removal round can be cut short at a credit that is not the removed wallet's (a limit on entries visited): each round starts at the first key again, so beside a wallet with more credits than the limit the round deletes nothing, the worker repeats it for ever, the follower is parked each time and later tasks never start", p.Pos(rrc.Pos()))
			}
			if any && okAll {
				c.OK(key, "finish is true only on the edge where iter.Next() returned false; every early exit of the scan reports false", p.Pos(rrc.Pos()))
			} else {
				c.Fail(key, "the credit scan can be left early (batch limit / height boundary) while still reporting finish: the wallet's status and keystore are deleted although credits carrying its script hashes remain", p.Pos(rrc.Pos()))
			}
		}
	}

	// ---- (5) a wallet flagged for removal is outside the follower's ready set: no new rows while it is being deleted --
	ruleReadySet(c, false, true)
	ruleRemovalKeepsSurvivorsReservations(c)
	ruleNoNewRowsForRemovedWallet(c)
	ruleRemovableVerdictConsidersInputs(c)
	ruleSpenderReferenceIsTheInput(c)
	ruleRemovalAnswersOnlyAfterPassphrase(c)
	ruleBlockRecordKeepsOrder(c)
	ruleTaskQueuedAfterDurableMarker(c) // "removal is refused while importing": no task without the flag's successful commit
	c.Rule("removal-resumed-after-restart", "the worker's start-up scan queues a removal for every status row flagged removed — under IsRemoved() alone: a removal interrupted between two of its steps is finished after a restart", 1)
	ruleRestartResumesTasks(c)
	rulePartialDecoderFreshRecord(c)
	ruleStatusRowsOneDecoder(c)
	ruleBalanceLookupPresence(c) // a rollback between two removal steps must not re-create the removed wallet's rows
	ruleImportAppliesSpends(c)   // "the same mnemonic can be imported again": records a removal kept for a co-owner must not make the re-import skip the spends
	ruleSelectionResetOnDelete(c)
	ruleBlockRecordCount(c)
}

// isGlobalBucket: buckets without per-wallet data (frozen by reading txmgr/type.go and syncstore.go).
func isGlobalBucket(label string) bool {
	l := strings.ToLower(label)
	return strings.Contains(l, "sync") && !strings.Contains(l, "status")
}

// fieldReadsCurrent: callee reads KeystoreManager.currentKeystore (a selected-wallet accessor).
func fieldReadsCurrent(p *an.Prog, f *ssa.Function) bool {
	if f == nil || f.Blocks == nil {
		return false
	}
	km := p.Type(pkgKeystore, "KeystoreManager")
	if km == nil {
		return false
	}
	// accessor-sized functions only: methods whose name mentions "Current"
	if !strings.Contains(f.Name(), "Current") {
		return false
	}
	return len(fieldReads(f, km, "currentKeystore")) > 0
}

// ruleBackgroundSelectedWalletFree (C08 within shared-tx-survives, C01 as a rule of its own): nothing the follower or the
// worker does depends on which wallet a client happens to have selected.
func ruleBackgroundSelectedWalletFree(c *report.Ctx) {
	p := c.P
	// no dependence on the selected wallet in background code
	cur := fn(c, pkgKeystore, "KeystoreManager", "CurrentKeystore")
	gr, _ := quitWgGoroutines(c)
	bgReached, bgParent := p.ReachNil(gr, an.ReachOpts{SkipEdge: func(from *ssa.Function, e an.Edge) bool { return e.Kind == "go" }})
	nbg := 0
	for f := range bgReached {
		if !p.InModule(f) || f.Blocks == nil {
			continue
		}
		nbg++
		an.Instrs(f, func(in ssa.Instruction) {
			cc := an.CallOf(in)
			if cc == nil || cc.StaticCallee() == nil {
				return
			}
			cal := cc.StaticCallee()
			pk := an.FuncPkg(cal)
			if pk == nil || pk.Path() != pkgKeystore {
				return
			}
			if cal == cur || strings.HasSuffix(cal.Name(), "InCurrent") || fieldReadsCurrent(p, cal) {
				// only calls actually reachable under nil-specialisation count (ReachNil visited this function)
				if !bgReached[cal] {
					return
				}
				c.Fail(sk(f)+":uses-selected-wallet:"+cal.Name(), "code reachable from the follower/worker goroutines consults the API's currently selected wallet ("+sk(cal)+"): whether another wallet owns an output, or which wallet a block belongs to, must not depend on what a client selected", posOf(c, in), p.Witness(bgParent, f)...)
			}
		})
	}
	c.OK("background-code:selected-wallet-free", itoa(nbg)+" functions reachable from handle/worker examined", "")
}

// rootCell: the local variable (cell) of the outermost function that v — the cell itself or a free variable of a
// literal, at any depth — stands for.
func rootCell(v ssa.Value) *ssa.Alloc {
	for i := 0; i < 6; i++ {
		switch x := v.(type) {
		case *ssa.Alloc:
			return x
		case *ssa.FreeVar:
			lit := x.Parent()
			par := lit.Parent()
			if par == nil {
				return nil
			}
			idx := -1
			for k, q := range lit.FreeVars {
				if q == x {
					idx = k
				}
			}
			var bound ssa.Value
			an.Instrs(par, func(in ssa.Instruction) {
				if mc, ok := in.(*ssa.MakeClosure); ok && mc.Fn == ssa.Value(lit) && idx >= 0 && idx < len(mc.Bindings) {
					bound = mc.Bindings[idx]
				}
			})
			if bound == nil {
				return nil
			}
			v = bound
		default:
			return nil
		}
	}
	return nil
}

// finishCellForm: the finish verdict of removeRelevantCredit kept in a variable that the scan — in a literal of the
// function — and the final return share. Shown: (1) every success return hands back that variable; (2) it is set true
// only in the function itself, before the literal that scans is made; (3) in the scanning literal every way out of
// the iterator loop other than the iterator being exhausted or an error return passes an assignment of false.
func finishCellForm(c *report.Ctx, rrc *ssa.Function, key string) bool {
	p := c.P
	var lit *ssa.Function
	var hdr *ssa.BasicBlock
	for _, g := range withLiterals(rrc) {
		if g == rrc {
			continue
		}
		an.Instrs(g, func(in ssa.Instruction) {
			if cc := an.CallOf(in); cc != nil && cc.IsInvoke() && cc.Method.Name() == "Next" && isNamedIface(cc.Value.Type(), pkgDB, "Iterator") {
				lit, hdr = g, in.Block()
			}
		})
	}
	if lit == nil {
		return false
	}
	// (1) the returned verdict
	var cell *ssa.Alloc
	okRet, any := true, false
	for _, b := range rrc.Blocks {
		r, isRet := b.Instrs[len(b.Instrs)-1].(*ssa.Return)
		if !isRet || len(r.Results) != 3 || p.ClassifyReturn(r, nil) == an.RetError {
			continue
		}
		rv := an.RetOperand(r, 1)
		if k, isK := rv.(*ssa.Const); isK && k.Value != nil && k.Value.ExactString() == "true" {
			// the early "nothing to scan" return is before the variable exists
			if cell != nil && cell.Block().Dominates(b) && cell.Block() != b {
				okRet = false
			}
			continue
		}
		ld, isLd := rv.(*ssa.UnOp)
		if !isLd || ld.Op != token.MUL {
			okRet = false
			continue
		}
		a := rootCell(ld.X)
		if a == nil || (cell != nil && a != cell) {
			okRet = false
			continue
		}
		cell, any = a, true
	}
	if !any || cell == nil {
		return false
	}
	// (2) stores
	isCell := func(v ssa.Value) bool { return rootCell(v) == cell }
	var mk ssa.Instruction // where the scanning literal is made
	an.Instrs(rrc, func(in ssa.Instruction) {
		if mc, ok := in.(*ssa.MakeClosure); ok {
			for _, g := range withLiterals(mc.Fn.(*ssa.Function)) {
				if g == lit {
					mk = in
				}
			}
		}
	})
	okStores := mk != nil
	for _, g := range withLiterals(rrc) {
		an.Instrs(g, func(in ssa.Instruction) {
			st, ok := in.(*ssa.Store)
			if !ok || !isCell(st.Addr) {
				return
			}
			k, isK := st.Val.(*ssa.Const)
			switch {
			case isK && k.Value != nil && k.Value.ExactString() == "false":
			case isK && k.Value != nil && k.Value.ExactString() == "true" && g == rrc && mk != nil && instrDominates(st, mk):
			default:
				okStores = false
			}
		})
	}
	// (3) ways out of the loop
	inLoop := func(b *ssa.BasicBlock) bool {
		for _, pr := range hdr.Preds {
			if hdr.Dominates(pr) && loopContains(hdr, pr, b) {
				return true
			}
		}
		return b == hdr
	}
	var body *ssa.BasicBlock
	for _, sb := range hdr.Succs {
		if sb != hdr && inLoop(sb) {
			body = sb
		}
	}
	okExits := body != nil
	if body != nil {
		s := &an.Search{P: p, Fn: lit,
			Cut: func(in ssa.Instruction) bool {
				st, ok := in.(*ssa.Store)
				if !ok || !isCell(st.Addr) {
					return false
				}
				k, isK := st.Val.(*ssa.Const)
				return isK && k.Value != nil && k.Value.ExactString() == "false"
			},
			CutEdge: func(from, to *ssa.BasicBlock) bool { return to == hdr }, // the next round starts afresh
			GoalBlock: func(b, pred *ssa.BasicBlock) bool {
				if inLoop(b) || pred == nil || !inLoop(pred) || pred == hdr {
					return false
				}
				if r, isRet := b.Instrs[len(b.Instrs)-1].(*ssa.Return); isRet && p.ClassifyReturn(r, pred) == an.RetError {
					return false
				}
				return true
			}}
		if w := s.Run(body, 0, hdr); w != nil {
			okExits = false
		}
	}
	progress := true
	for _, g := range withLiterals(rrc) {
		an.Instrs(g, func(in ssa.Instruction) {
			st, ok := in.(*ssa.Store)
			if !ok || !isCell(st.Addr) {
				return
			}
			if k, isK := st.Val.(*ssa.Const); isK && k.Value != nil && k.Value.ExactString() == "false" && !ownCreditGuard(p, rrc, p.GuardsOf(in)) {
				progress = false
			}
		})
	}
	if progress {
		c.OK(sk(rrc)+":round-cut-only-at-own-credit", "the scan reports 'not finished' only under the script-hash test", p.Pos(rrc.Pos()))
	} else {
		c.Fail(sk(rrc)+":round-cut-only-at-own-credit", "a removal round can be cut short at a credit that is not the removed wallet's (a limit on entries visited): each round starts at the first key again, so beside a wallet with more credits than the limit the round deletes nothing and the worker repeats it for ever", p.Pos(rrc.Pos()))
	}
	if okRet && okStores && okExits {
		c.OK(key, "finish is a variable set true before the scan and false on every early way out of it; the success return hands it back", p.Pos(rrc.Pos()))
	} else {
		c.Fail(key, "the credit scan can be left early (batch limit / height boundary) while still reporting finish: the wallet's status and keystore are deleted although credits carrying its script hashes remain", p.Pos(rrc.Pos()))
	}
	return true
}

// ownCreditGuard: among gs, the test that the credit in hand carries one of the removed wallet's script hashes
// (`_, ok := scriptHashSet[…]` found, the set being rrc's map parameter — or a variable it was copied to).
func ownCreditGuard(p *an.Prog, rrc *ssa.Function, gs []an.Atom) bool {
	return an.AnyAtom(gs, func(a an.Atom) bool {
		if a.Op != token.ILLEGAL || !a.Truth {
			return false
		}
		ex, ok := a.X.(*ssa.Extract)
		if !ok || ex.Index != 1 {
			return false
		}
		lk, ok := ex.Tuple.(*ssa.Lookup)
		if !ok || !lk.CommaOk {
			return false
		}
		_, isMap := lk.X.Type().Underlying().(*types.Map)
		return isMap && strings.Contains(p.Desc(lk.X), "map[string]struct{}")
	})
}
