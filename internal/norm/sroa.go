package norm

import (
	"fmt"
	"go/ast"
	"go/token"
	"go/types"
	"sort"
	"strings"

	"golang.org/x/tools/go/packages"
)

// Scalar replacement of a local record. A local variable c that is defined once as `&T{…}`, `T{…}`, `new(T)` or
// `var c T`, T a struct type the reviewed tree did not have (a closure's captured variables gathered into a struct
// by a refactoring), and that is only ever used to select a field (`c.f`, read or written, in the function or in its
// literals), is replaced by one local variable per field. The variables live exactly as long as the record did (they
// are declared where it was created and captured by reference by the same literals), so every read sees the same
// writes. An alias the inliner declared for it (`var s, tx = (*T)(c), …` — the receiver of a method that was spliced
// in) is replaced along with it when T is reached through a pointer and the alias obeys the same discipline.
func (r *rw) scalarReplace(pk *packages.Package, file *ast.File) {
	info := pk.TypesInfo
	if strings.HasSuffix(pk.PkgPath, "/proto") {
		return
	}
	type cand struct {
		v      *types.Var
		st     *types.Struct
		named  *types.Named
		ptr    bool
		stmt   ast.Stmt          // the defining statement (in a statement list)
		decl   ast.Stmt          // `var c *T` when the record is created by a later assignment (stmt); else nil
		lit    *ast.CompositeLit // nil: zero value
		alias  []*types.Var
		name   string
		fields map[string]string // field → variable name
	}
	structOf := func(t types.Type) (*types.Named, *types.Struct, bool) {
		ptr := false
		if p, ok := types.Unalias(t).(*types.Pointer); ok {
			t, ptr = p.Elem(), true
		}
		n, ok := types.Unalias(t).(*types.Named)
		if !ok || n.Obj().Pkg() != pk.Types || n.Obj().Parent() != pk.Types.Scope() || n.TypeParams() != nil {
			return nil, nil, false
		}
		st, ok := n.Underlying().(*types.Struct)
		if !ok || !r.p.FreshStruct(pk.PkgPath, n.Obj().Name()) {
			return nil, nil, false
		}
		for i := 0; i < st.NumFields(); i++ {
			if st.Field(i).Embedded() || st.Field(i).Name() == "_" {
				return nil, nil, false
			}
		}
		return n, st, ptr
	}
	var cands []*cand
	byVar := map[*types.Var]*cand{}
	late := map[*ast.AssignStmt]bool{} // the creating assignments of late-defined records
	inList := func(parent ast.Node, s ast.Stmt) bool {
		switch b := parent.(type) {
		case *ast.BlockStmt:
			for _, x := range b.List {
				if x == s {
					return true
				}
			}
		case *ast.CaseClause:
			for _, x := range b.Body {
				if x == s {
					return true
				}
			}
		case *ast.CommClause:
			for _, x := range b.Body {
				if x == s {
					return true
				}
			}
		}
		return false
	}
	var stack []ast.Node
	ast.Inspect(file, func(n ast.Node) bool {
		if n == nil {
			stack = stack[:len(stack)-1]
			return true
		}
		stack = append(stack, n)
		var id *ast.Ident
		var val ast.Expr
		var stmt ast.Stmt
		switch x := n.(type) {
		case *ast.AssignStmt:
			if x.Tok == token.DEFINE && len(x.Lhs) == 1 && len(x.Rhs) == 1 {
				id, _ = x.Lhs[0].(*ast.Ident)
				val, stmt = x.Rhs[0], x
			}
		case *ast.DeclStmt:
			if gd, ok := x.Decl.(*ast.GenDecl); ok && gd.Tok == token.VAR && len(gd.Specs) == 1 {
				vs := gd.Specs[0].(*ast.ValueSpec)
				if len(vs.Names) == 1 && len(vs.Values) <= 1 {
					id, stmt = vs.Names[0], x
					if len(vs.Values) == 1 {
						val = vs.Values[0]
					}
				}
			}
		}
		if id == nil || id.Name == "_" || len(stack) < 2 || !inList(stack[len(stack)-2], stmt) {
			return true
		}
		v, _ := info.Defs[id].(*types.Var)
		if v == nil {
			return true
		}
		named, st, ptr := structOf(v.Type())
		if st == nil {
			return true
		}
		c := &cand{v: v, st: st, named: named, ptr: ptr, stmt: stmt, name: id.Name}
		if val != nil {
			e := ast.Unparen(val)
			if u, ok := e.(*ast.UnaryExpr); ok && u.Op == token.AND && ptr {
				e = ast.Unparen(u.X)
			} else if call, ok := e.(*ast.CallExpr); ok && ptr && len(call.Args) == 1 {
				if fid, ok := ast.Unparen(call.Fun).(*ast.Ident); ok {
					if b, ok := info.Uses[fid].(*types.Builtin); ok && b.Name() == "new" {
						e = nil
					}
				}
				if e != nil {
					return true
				}
			} else if ptr {
				return true
			}
			if e != nil {
				cl, ok := e.(*ast.CompositeLit)
				if !ok {
					return true
				}
				c.lit = cl
			}
		} else if ptr {
			// var c *T — a result temporary of the inliner: created by the one assignment `c = &T{…}` made later
			var as []*ast.AssignStmt
			var parents []ast.Node
			var st2 []ast.Node
			ast.Inspect(file, func(m ast.Node) bool {
				if m == nil {
					st2 = st2[:len(st2)-1]
					return true
				}
				st2 = append(st2, m)
				if a, ok := m.(*ast.AssignStmt); ok && a.Tok == token.ASSIGN {
					for _, l := range a.Lhs {
						if lid, ok := ast.Unparen(l).(*ast.Ident); ok && info.Uses[lid] == types.Object(v) {
							as = append(as, a)
							parents = append(parents, st2[len(st2)-2])
						}
					}
				}
				return true
			})
			if len(as) != 1 || len(as[0].Lhs) != 1 || len(as[0].Rhs) != 1 || !inList(parents[0], as[0]) {
				return true
			}
			e := ast.Unparen(as[0].Rhs[0])
			u, ok := e.(*ast.UnaryExpr)
			if !ok || u.Op != token.AND {
				return true
			}
			cl, ok := ast.Unparen(u.X).(*ast.CompositeLit)
			if !ok {
				return true
			}
			c.lit, c.decl, c.stmt = cl, stmt, as[0]
			late[as[0]] = true
		}
		cands = append(cands, c)
		byVar[v] = c
		return true
	})
	if len(cands) == 0 {
		return
	}
	// the inliner's parameter blocks: aliases
	type aliasDef struct {
		v     *types.Var
		of    *types.Var
		spec  *ast.ValueSpec
		decl  *ast.DeclStmt
		idx   int
		blank *ast.AssignStmt
		bidx  int
		whole ast.Stmt   // `p := c`: the statement to delete (spec == nil then)
		src   *ast.Ident // and the mention of the source in it
	}
	aliases := map[*types.Var]*aliasDef{}
	addrOf := map[*ast.Ident]bool{}  // `&rec` inside an alias definition
	viaAddr := map[*types.Var]bool{} // aliases that are pointers to a by-value record
	ast.Inspect(file, func(n ast.Node) bool {
		blk, ok := n.(*ast.BlockStmt)
		if !ok {
			return true
		}
		for i := 0; i+1 < len(blk.List); i++ {
			ds, ok := blk.List[i].(*ast.DeclStmt)
			if !ok {
				continue
			}
			gd, ok := ds.Decl.(*ast.GenDecl)
			if !ok || gd.Tok != token.VAR || len(gd.Specs) != 1 {
				continue
			}
			vs := gd.Specs[0].(*ast.ValueSpec)
			as, ok := blk.List[i+1].(*ast.AssignStmt)
			if vs.Type != nil || len(vs.Names) != len(vs.Values) || !ok || as.Tok != token.ASSIGN || len(as.Lhs) != len(as.Rhs) {
				continue
			}
			for k, nm := range vs.Names {
				av, _ := info.Defs[nm].(*types.Var)
				if av == nil {
					continue
				}
				e := ast.Unparen(vs.Values[k])
				if c, isCall := e.(*ast.CallExpr); isCall && len(c.Args) == 1 {
					if tv, has := info.Types[c.Fun]; has && tv.IsType() {
						e = ast.Unparen(c.Args[0])
					}
				}
				byAddr := false
				if u, isU := e.(*ast.UnaryExpr); isU && u.Op == token.AND {
					e, byAddr = ast.Unparen(u.X), true // (*T)(&(rec)): a pointer receiver bound to a record held by value
				}
				sid, ok := e.(*ast.Ident)
				if !ok {
					continue
				}
				src, _ := info.Uses[sid].(*types.Var)
				if src == nil {
					continue
				}
				if byAddr {
					if !types.Identical(types.NewPointer(src.Type()), av.Type()) {
						continue
					}
					addrOf[sid] = true
				} else if !types.Identical(src.Type(), av.Type()) {
					continue
				}
				bidx := -1
				for j := range as.Rhs {
					l, ok1 := as.Lhs[j].(*ast.Ident)
					rr, ok2 := as.Rhs[j].(*ast.Ident)
					if ok1 && ok2 && l.Name == "_" && info.Uses[rr] == types.Object(av) {
						bidx = j
					}
				}
				if bidx < 0 {
					continue
				}
				aliases[av] = &aliasDef{v: av, of: src, spec: vs, decl: ds, idx: k, blank: as, bidx: bidx}
				if byAddr {
					viaAddr[av] = true
				}
			}
		}
		return true
	})
	// `p := c` / `var p = c`: the record (or an alias of it) under another name
	{
		var stack2 []ast.Node
		ast.Inspect(file, func(n ast.Node) bool {
			if n == nil {
				stack2 = stack2[:len(stack2)-1]
				return true
			}
			stack2 = append(stack2, n)
			var id *ast.Ident
			var val ast.Expr
			var stmt ast.Stmt
			switch x := n.(type) {
			case *ast.AssignStmt:
				if x.Tok == token.DEFINE && len(x.Lhs) == 1 && len(x.Rhs) == 1 {
					id, _ = x.Lhs[0].(*ast.Ident)
					val, stmt = x.Rhs[0], x
				}
			case *ast.DeclStmt:
				if gd, ok := x.Decl.(*ast.GenDecl); ok && gd.Tok == token.VAR && len(gd.Specs) == 1 {
					if vs := gd.Specs[0].(*ast.ValueSpec); len(vs.Names) == 1 && len(vs.Values) == 1 && vs.Type == nil {
						id, val, stmt = vs.Names[0], vs.Values[0], x
					}
				}
			}
			if id == nil || id.Name == "_" || len(stack2) < 2 || !inList(stack2[len(stack2)-2], stmt) {
				return true
			}
			av, _ := info.Defs[id].(*types.Var)
			sid, ok := ast.Unparen(val).(*ast.Ident)
			if av == nil || !ok {
				return true
			}
			src, _ := info.Uses[sid].(*types.Var)
			if src == nil || !types.Identical(src.Type(), av.Type()) || aliases[av] != nil {
				return true
			}
			if _, isPtr := types.Unalias(av.Type()).(*types.Pointer); !isPtr {
				return true
			}
			aliases[av] = &aliasDef{v: av, of: src, whole: stmt, src: sid}
			return true
		})
	}
	root := func(v *types.Var) *cand {
		for i := 0; i < 4 && v != nil; i++ {
			if c := byVar[v]; c != nil {
				return c
			}
			a := aliases[v]
			if a == nil {
				return nil
			}
			v = a.of
		}
		return nil
	}
	// every use: a field selection, or inside an alias definition / the blank assignment that keeps an alias used
	bad := map[*cand]string{}
	type selUse struct {
		se *ast.SelectorExpr
		c  *cand
	}
	var sels []selUse
	accounted := map[*ast.Ident]bool{}
	for av, a := range aliases {
		c := root(av)
		if c == nil {
			continue
		}
		if !c.ptr && !viaAddr[av] {
			bad[c] = "aliased by value"
		}
		c.alias = append(c.alias, av)
		if a.spec == nil {
			accounted[a.src] = true
			continue
		}
		ast.Inspect(a.spec.Values[a.idx], func(n ast.Node) bool {
			if id, ok := n.(*ast.Ident); ok {
				accounted[id] = true
			}
			return true
		})
		accounted[a.blank.Rhs[a.bidx].(*ast.Ident)] = true
	}
	for _, c := range cands {
		if c.decl != nil {
			if as, ok := c.stmt.(*ast.AssignStmt); ok {
				if id, ok := ast.Unparen(as.Lhs[0]).(*ast.Ident); ok {
					accounted[id] = true
				}
			}
		}
	}
	selX := map[*ast.Ident]*ast.SelectorExpr{}
	ast.Inspect(file, func(n ast.Node) bool {
		if se, ok := n.(*ast.SelectorExpr); ok {
			if id, ok := se.X.(*ast.Ident); ok {
				selX[id] = se
			}
		}
		return true
	})
	for id, o := range info.Uses {
		v, _ := o.(*types.Var)
		if v == nil {
			continue
		}
		c := root(v)
		if c == nil || r.fname(id.Pos()) != r.fname(file.Pos()) {
			continue
		}
		if accounted[id] {
			continue
		}
		se := selX[id]
		if se == nil {
			bad[c] = "used as a whole at " + r.p.Pos(id.Pos())
			continue
		}
		sel := info.Selections[se]
		if sel == nil || sel.Kind() != types.FieldVal || len(sel.Index()) != 1 {
			bad[c] = "a method is called on it at " + r.p.Pos(id.Pos())
			continue
		}
		sels = append(sels, selUse{se, c})
	}
	for _, c := range cands {
		if bad[c] == "" {
			if why := mutatedInExcept(info, enclosingFunc(file, c.stmt.Pos()), c.v, addrOf, late); why != "" {
				bad[c] = why
			}
		}
		for _, av := range c.alias {
			if bad[c] == "" {
				if why := mutatedIn(info, enclosingFunc(file, c.stmt.Pos()), av); why != "" {
					bad[c] = "alias: " + why
				}
			}
		}
		// at most one alias per parameter block and round (the deletions must not overlap)
		seen := map[*ast.ValueSpec]bool{}
		for _, av := range c.alias {
			if aliases[av].spec == nil {
				continue
			}
			if seen[aliases[av].spec] {
				bad[c] = "two aliases in one block"
			}
			seen[aliases[av].spec] = true
		}
	}
	sort.Slice(cands, func(i, j int) bool { return cands[i].stmt.Pos() < cands[j].stmt.Pos() })
	fe := r.file(r.fname(file.Pos()))
	callerFile := r.fname(file.Pos())
	delElem := func(list []ast.Node, i int, whole ast.Node) {
		switch {
		case len(list) == 1:
			fe.edits = append(fe.edits, edit{r.off(whole.Pos()), r.off(whole.End()), ""})
		case i < len(list)-1:
			fe.edits = append(fe.edits, edit{r.off(list[i].Pos()), r.off(list[i+1].Pos()), ""})
		default:
			fe.edits = append(fe.edits, edit{r.off(list[i-1].End()), r.off(list[i].End()), ""})
		}
	}
	for _, c := range cands {
		if why := bad[c]; why != "" {
			r.skipped = append(r.skipped, fmt.Sprintf("round %d: record %s at %s kept: %s", r.round, c.name, r.p.Pos(c.stmt.Pos()), why))
			continue
		}
		r.site++
		c.fields = map[string]string{}
		var b strings.Builder
		okTypes := true
		for i := 0; i < c.st.NumFields(); i++ {
			f := c.st.Field(i)
			ts, ok := r.typeText(pk, file, f.Type())
			if !ok {
				okTypes = false
				break
			}
			name := fmt.Sprintf("rec%d_%d_%s_%s", r.round, r.site, c.name, f.Name())
			c.fields[f.Name()] = name
			fmt.Fprintf(&b, "var %s %s\n_ = %s\n", name, ts, name)
		}
		declText := ""
		if c.decl != nil {
			// the variables are declared where the record's variable was, and filled where the record was created
			declText = b.String() + fmt.Sprintf("//line %s:%d\n", callerFile, r.p.Fset.PositionFor(c.decl.End(), false).Line)
			b.Reset()
		}
		if !okTypes {
			r.skipped = append(r.skipped, fmt.Sprintf("round %d: record %s at %s kept: a field type cannot be written here", r.round, c.name, r.p.Pos(c.stmt.Pos())))
			continue
		}
		litOK := true
		if c.lit != nil {
			for i, el := range c.lit.Elts {
				fname, val := "", el
				if kv, ok := el.(*ast.KeyValueExpr); ok {
					kid, ok := kv.Key.(*ast.Ident)
					if !ok {
						litOK = false
						break
					}
					fname, val = kid.Name, kv.Value
				} else if i < c.st.NumFields() {
					fname = c.st.Field(i).Name()
				}
				if c.fields[fname] == "" {
					litOK = false
					break
				}
				// an untyped composite literal as a value needs its type spelled out
				vt := r.text(val)
				if cl, ok := ast.Unparen(val).(*ast.CompositeLit); ok && cl.Type == nil {
					litOK = false
					break
				}
				fmt.Fprintf(&b, "%s = %s\n", c.fields[fname], vt)
			}
		}
		if !litOK {
			r.skipped = append(r.skipped, fmt.Sprintf("round %d: record %s at %s kept: its literal is not understood", r.round, c.name, r.p.Pos(c.stmt.Pos())))
			c.fields = nil
			continue
		}
		// selections inside the literal's own values are rewritten by separate edits: keep the two apart by letting
		// the statement-level edit win only when no selection of another record sits inside it
		clash := false
		for _, su := range sels {
			if su.c != c && bad[su.c] == "" && c.stmt.Pos() <= su.se.Pos() && su.se.End() <= c.stmt.End() {
				clash = true
			}
		}
		if clash {
			r.skipped = append(r.skipped, fmt.Sprintf("round %d: record %s at %s kept this round: its literal mentions another record", r.round, c.name, r.p.Pos(c.stmt.Pos())))
			c.fields = nil
			continue
		}
		fmt.Fprintf(&b, "//line %s:%d\n", callerFile, r.p.Fset.PositionFor(c.stmt.End(), false).Line)
		fe.edits = append(fe.edits, edit{r.off(c.stmt.Pos()), r.off(c.stmt.End()), "\n" + b.String()})
		if c.decl != nil {
			fe.edits = append(fe.edits, edit{r.off(c.decl.Pos()), r.off(c.decl.End()), "\n" + declText})
		}
		for _, av := range c.alias {
			a := aliases[av]
			if a.spec == nil {
				fe.edits = append(fe.edits, edit{r.off(a.whole.Pos()), r.off(a.whole.End()), ""})
				continue
			}
			var names, vals, ls, rs []ast.Node
			for k := range a.spec.Names {
				names = append(names, a.spec.Names[k])
				vals = append(vals, a.spec.Values[k])
			}
			for k := range a.blank.Lhs {
				ls = append(ls, a.blank.Lhs[k])
				rs = append(rs, a.blank.Rhs[k])
			}
			if len(names) == 1 {
				fe.edits = append(fe.edits, edit{r.off(a.decl.Pos()), r.off(a.decl.End()), ""})
			} else {
				delElem(names, a.idx, a.decl)
				delElem(vals, a.idx, a.decl)
			}
			if len(ls) == 1 {
				fe.edits = append(fe.edits, edit{r.off(a.blank.Pos()), r.off(a.blank.End()), ""})
			} else {
				delElem(ls, a.bidx, a.blank)
				delElem(rs, a.bidx, a.blank)
			}
		}
		r.did = append(r.did, fmt.Sprintf("round %d: record %s (%s) at %s replaced by one variable per field", r.round, c.name, c.named.Obj().Name(), r.p.Pos(c.stmt.Pos())))
	}
	for _, su := range sels {
		if su.c.fields == nil {
			continue
		}
		// a selection inside the replaced defining statement of its own record cannot occur (the record is not in
		// scope there); inside a deleted alias definition it is moot
		fe.edits = append(fe.edits, edit{r.off(su.se.Pos()), r.off(su.se.End()), su.c.fields[su.se.Sel.Name]})
	}
}

// foldConstIfs: `if flag { A } else { B }` where flag is a parameter the inliner bound to the constant true or false
// (a helper called with a literal switch: `parse(m, true)`) and nothing assigns it afterwards, is replaced by the
// branch that runs. The other branch is dead in this copy of the helper's body.
func (r *rw) foldConstIfs(pk *packages.Package, file *ast.File) {
	info := pk.TypesInfo
	consts := map[*types.Var]bool{}
	ast.Inspect(file, func(n ast.Node) bool {
		blk, ok := n.(*ast.BlockStmt)
		if !ok {
			return true
		}
		for i := 0; i+1 < len(blk.List); i++ {
			ds, ok := blk.List[i].(*ast.DeclStmt)
			if !ok {
				continue
			}
			gd, ok := ds.Decl.(*ast.GenDecl)
			if !ok || gd.Tok != token.VAR || len(gd.Specs) != 1 {
				continue
			}
			vs := gd.Specs[0].(*ast.ValueSpec)
			as, ok := blk.List[i+1].(*ast.AssignStmt)
			if vs.Type != nil || len(vs.Names) != len(vs.Values) || !ok || as.Tok != token.ASSIGN {
				continue
			}
			allBlank := true
			for _, l := range as.Lhs {
				if id, ok := l.(*ast.Ident); !ok || id.Name != "_" {
					allBlank = false
				}
			}
			if !allBlank {
				continue
			}
			for k, nm := range vs.Names {
				v, _ := info.Defs[nm].(*types.Var)
				if v == nil {
					continue
				}
				if b, isB := v.Type().Underlying().(*types.Basic); !isB || b.Kind() != types.Bool {
					continue
				}
				tv, has := info.Types[vs.Values[k]]
				if !has || tv.Value == nil {
					continue
				}
				switch tv.Value.ExactString() {
				case "true":
					consts[v] = true
				case "false":
					consts[v] = false
				}
			}
		}
		return true
	})
	if len(consts) == 0 {
		return
	}
	stable := map[*types.Var]bool{}
	for v := range consts {
		stable[v] = mutatedIn(info, enclosingFunc(file, v.Pos()), v) == ""
	}
	fe := r.file(r.fname(file.Pos()))
	var done [][2]token.Pos
	ast.Inspect(file, func(n ast.Node) bool {
		is, ok := n.(*ast.IfStmt)
		if !ok || is.Init != nil {
			return true
		}
		for _, d := range done {
			if d[0] <= is.Pos() && is.End() <= d[1] {
				return false // inside a statement already replaced this round
			}
		}
		cond, neg := ast.Unparen(is.Cond), false
		for {
			u, isU := cond.(*ast.UnaryExpr)
			if !isU || u.Op != token.NOT {
				break
			}
			cond, neg = ast.Unparen(u.X), !neg
		}
		id, isID := cond.(*ast.Ident)
		if !isID {
			return true
		}
		v, _ := info.Uses[id].(*types.Var)
		val, known := consts[v]
		if !known || !stable[v] {
			return true
		}
		text := "{}"
		switch {
		case val != neg:
			text = r.text(is.Body)
		case is.Else != nil:
			text = r.text(is.Else)
			if _, isIf := is.Else.(*ast.IfStmt); isIf {
				text = "{ " + text + " }"
			}
		}
		text += fmt.Sprintf("\n//line %s:%d\n", r.fname(file.Pos()), r.p.Fset.PositionFor(is.End(), false).Line)
		fe.edits = append(fe.edits, edit{r.off(is.Pos()), r.off(is.End()), text})
		done = append(done, [2]token.Pos{is.Pos(), is.End()})
		r.did = append(r.did, fmt.Sprintf("round %d: `if %s` at %s decided (the flag is the constant %v here)", r.round, r.text(is.Cond), r.p.Pos(is.Pos()), val))
		return false
	})
}

// mutatedInExcept: mutatedIn, not counting the address-of occurrences listed in except.
func mutatedInExcept(info *types.Info, n ast.Node, v *types.Var, except map[*ast.Ident]bool, late map[*ast.AssignStmt]bool) string {
	if n == nil {
		return "not inside a function"
	}
	why := ""
	isV := func(e ast.Expr) *ast.Ident {
		i, ok := ast.Unparen(e).(*ast.Ident)
		if ok && info.Uses[i] == types.Object(v) {
			return i
		}
		return nil
	}
	ast.Inspect(n, func(n ast.Node) bool {
		switch x := n.(type) {
		case *ast.AssignStmt:
			for _, l := range x.Lhs {
				if isV(l) != nil && !late[x] {
					why = "the variable is reassigned"
				}
			}
		case *ast.IncDecStmt:
			if isV(x.X) != nil {
				why = "the variable is reassigned"
			}
		case *ast.UnaryExpr:
			if id := isV(x.X); x.Op == token.AND && id != nil && !except[id] {
				why = "the address of the variable is taken"
			}
		case *ast.RangeStmt:
			if (x.Key != nil && isV(x.Key) != nil) || (x.Value != nil && isV(x.Value) != nil) {
				why = "the variable is reassigned"
			}
		}
		return true
	})
	return why
}
