// Package norm normalises the analysed tree before the rules run: a function that did not exist in the reviewed
// tree (an.Prog.Fresh: its name is not recorded in anchors.json and no recorded function was renamed to it) is
// analysed as part of its callers. Every static call of such a function from its own package is replaced, in an
// in-memory overlay of the source, by the callee's body (statement-level inlining: parameters bound to the
// arguments, results assigned to temporaries, `return` turned into assign-and-leave), and the function is dropped
// once nothing refers to it. The rules then see the shape the code had before a helper was extracted from it.
//
// The rewrite is semantics-preserving by construction and declines (leaving the call in place, with the reason
// recorded) whenever one of its preconditions does not hold: callee and caller in one package, no defer / recover /
// labels / goto / recursion / type parameters in the callee, the call is the first thing its statement evaluates,
// the statement sits in a statement list, no identifier of the callee is captured by a declaration at the call site.
// The rewritten tree is type-checked again; if it does not type-check the normalisation is abandoned and the
// original tree is analysed as it stands.
package norm

import (
	"fmt"
	"go/ast"
	"go/token"
	"go/types"
	"os"
	"sort"
	"strings"

	"golang.org/x/tools/go/ast/astutil"
	"golang.org/x/tools/go/packages"
	"golang.org/x/tools/go/ssa"

	"verif/internal/an"
)

// Load loads dir with the overlay and normalises it (at most maxRounds rewrite rounds).
func Load(dir string, overlay map[string][]byte) (*an.Prog, error) {
	p, err := an.Load(dir, overlay)
	if err != nil {
		return nil, err
	}
	var notes []string
	const maxRounds = 9
	for round := 1; round <= maxRounds; round++ {
		fresh := p.Fresh()
		if len(fresh) == 0 && round == 1 {
			break
		}
		ov, did, skipped := rewrite(p, fresh, round)
		if len(did) == 0 {
			notes = append(notes, skipped...)
			break
		}
		p2, err := an.Load(dir, ov)
		if err != nil {
			notes = append(notes, fmt.Sprintf("round %d abandoned (the rewritten tree does not type-check: %v); analysing the tree of the previous round", round, err))
			notes = append(notes, skipped...)
			break
		}
		notes = append(notes, did...)
		if round == maxRounds {
			notes = append(notes, skipped...)
		}
		p = p2
	}
	p.Norm = notes
	return p, nil
}

type edit struct {
	start, end int // byte offsets in the file
	text       string
}

type fileEdits struct {
	name  string
	src   []byte
	edits []edit
}

type rw struct {
	p       *an.Prog
	files   map[string]*fileEdits
	fresh   map[*types.Func]*ast.FuncDecl
	pkgOf   map[*types.Func]*packages.Package
	site    int
	round   int
	did     []string
	skipped []string
	// bookkeeping for the deletion of fresh functions and unused imports
	inlinedUses map[*types.Func]int
	copied      map[*types.Func]bool         // fresh functions whose (original) body text was copied somewhere this round
	addImports  map[string]map[string]string // file → local name → path
	newPkgUses  map[string]map[string]int    // file → import path → uses added by inlined text
	deleted     map[string][][2]int          // file → deleted byte ranges
	reduced     map[*types.Var]int           // local function variables: calls replaced by the literal's body this round
}

// litVar: a local variable that holds one function literal for its whole life (defined with it, never assigned again,
// its address never taken).
type litVar struct {
	v     *types.Var
	lit   *ast.FuncLit
	uses  int // identifiers that refer to it
	idle  int // of those, operands of an assignment to blank
	calls int // of those, called
}

func (r *rw) file(name string) *fileEdits {
	if fe, ok := r.files[name]; ok {
		return fe
	}
	var src []byte
	if b, ok := r.p.Overlay[name]; ok {
		src = b
	} else {
		src, _ = os.ReadFile(name)
	}
	fe := &fileEdits{name: name, src: src}
	r.files[name] = fe
	return fe
}

func (r *rw) off(pos token.Pos) int { return r.p.Fset.PositionFor(pos, false).Offset }
func (r *rw) fname(pos token.Pos) string {
	return r.p.Fset.PositionFor(pos, false).Filename
}
func (r *rw) text(n ast.Node) string {
	fe := r.file(r.fname(n.Pos()))
	return string(fe.src[r.off(n.Pos()):r.off(n.End())])
}

func rewrite(p *an.Prog, fresh []*ssa.Function, round int) (map[string][]byte, []string, []string) {
	r := &rw{p: p, files: map[string]*fileEdits{}, fresh: map[*types.Func]*ast.FuncDecl{}, pkgOf: map[*types.Func]*packages.Package{}, round: round,
		reduced: map[*types.Var]int{}, inlinedUses: map[*types.Func]int{}, copied: map[*types.Func]bool{}, addImports: map[string]map[string]string{}, newPkgUses: map[string]map[string]int{}, deleted: map[string][][2]int{}}
	for _, f := range fresh {
		obj, _ := f.Object().(*types.Func)
		decl, _ := f.Syntax().(*ast.FuncDecl)
		if obj == nil || decl == nil || decl.Body == nil {
			continue
		}
		r.fresh[obj] = decl
	}
	for _, pk := range p.Pkgs {
		for obj := range r.fresh {
			if obj.Pkg() == pk.Types {
				r.pkgOf[obj] = pk
			}
		}
	}
	// call sites
	uses := map[*types.Func]int{}
	for _, pk := range p.Pkgs {
		if pk.TypesInfo == nil {
			continue
		}
		for id, o := range pk.TypesInfo.Uses {
			if fn, ok := o.(*types.Func); ok {
				if _, isFresh := r.fresh[fn]; isFresh {
					uses[fn]++
					_ = id
				}
			}
		}
	}
	// method values of fresh methods become literals that call the method (a round of their own: the call inside the
	// literal is inlined by the next one)
	// `for fresh(…) { … }` becomes `for { if !(fresh(…)) { break }; … }` (a round of its own as well)
	for _, pk := range p.Pkgs {
		if pk.TypesInfo == nil {
			continue
		}
		for _, file := range pk.Syntax {
			r.unfoldLoopConds(pk, file)
		}
	}
	if len(r.did) == 0 {
		for _, pk := range p.Pkgs {
			if pk.TypesInfo == nil {
				continue
			}
			for _, file := range pk.Syntax {
				r.wrapMethodValues(pk, file)
			}
		}
	}
	if len(r.did) == 0 {
		for _, pk := range p.Pkgs {
			if pk.TypesInfo == nil {
				continue
			}
			for _, file := range pk.Syntax {
				r.inlineFile(pk, file)
			}
		}
	}
	if len(r.did) == 0 {
		for _, pk := range p.Pkgs {
			if pk.TypesInfo == nil {
				continue
			}
			for _, file := range pk.Syntax {
				r.reduceLiterals(pk, file)
			}
		}
	}
	if len(r.did) == 0 {
		for _, pk := range p.Pkgs {
			if pk.TypesInfo == nil {
				continue
			}
			for _, file := range pk.Syntax {
				r.scalarReplace(pk, file)
			}
		}
	}
	if len(r.did) == 0 {
		for _, pk := range p.Pkgs {
			if pk.TypesInfo == nil {
				continue
			}
			for _, file := range pk.Syntax {
				r.foldConstIfs(pk, file)
			}
		}
	}
	// drop fresh functions nothing refers to any more
	var objs []*types.Func
	for o := range r.fresh {
		objs = append(objs, o)
	}
	sort.Slice(objs, func(i, j int) bool { return objs[i].FullName() < objs[j].FullName() })
	for _, o := range objs {
		if uses[o] != r.inlinedUses[o] || r.usedInsideCopied(o) {
			continue
		}
		if !droppable(o) {
			continue
		}
		decl := r.fresh[o]
		start := decl.Pos()
		if decl.Doc != nil {
			start = decl.Doc.Pos()
		}
		fn := r.fname(decl.Pos())
		fe := r.file(fn)
		// edits inside the dropped declaration are moot
		s, e := r.off(start), r.off(decl.End())
		var keep []edit
		for _, ed := range fe.edits {
			if ed.start >= s && ed.end <= e {
				continue
			}
			keep = append(keep, ed)
		}
		fe.edits = append(keep, edit{s, e, ""})
		r.deleted[fn] = append(r.deleted[fn], [2]int{s, e})
		r.did = append(r.did, fmt.Sprintf("round %d: dropped %s (no reference left)", round, o.FullName()))
	}
	r.fixImports()
	if len(r.did) == 0 {
		return nil, nil, r.skipped
	}
	ov := map[string][]byte{}
	for k, v := range p.Overlay {
		ov[k] = v
	}
	for name, fe := range r.files {
		if len(fe.edits) == 0 {
			continue
		}
		out, ok := apply(fe)
		if !ok {
			r.skipped = append(r.skipped, fmt.Sprintf("round %d: overlapping edits in %s; file left as it is", round, name))
			continue
		}
		ov[name] = out
	}
	sort.Strings(r.did)
	sort.Strings(r.skipped)
	return ov, r.did, r.skipped
}

// a method that may be needed to satisfy an interface is never dropped; neither is an exported function
func droppable(o *types.Func) bool {
	if o.Exported() {
		return false
	}
	return true
}

// usedInsideCopied: is o referenced from the body of a fresh function whose original text was copied this round?
func (r *rw) usedInsideCopied(o *types.Func) bool {
	for c, decl := range r.fresh {
		if !r.copied[c] {
			continue
		}
		pk := r.pkgOf[c]
		found := false
		ast.Inspect(decl.Body, func(n ast.Node) bool {
			if id, ok := n.(*ast.Ident); ok && pk.TypesInfo.Uses[id] == types.Object(o) {
				found = true
			}
			return !found
		})
		if found {
			return true
		}
	}
	return false
}

func apply(fe *fileEdits) ([]byte, bool) {
	sort.SliceStable(fe.edits, func(i, j int) bool {
		if fe.edits[i].start != fe.edits[j].start {
			return fe.edits[i].start < fe.edits[j].start
		}
		return fe.edits[i].end < fe.edits[j].end
	})
	var out []byte
	at := 0
	for _, e := range fe.edits {
		if e.start < at {
			return nil, false
		}
		out = append(out, fe.src[at:e.start]...)
		out = append(out, e.text...)
		at = e.end
	}
	out = append(out, fe.src[at:]...)
	return out, true
}

func (r *rw) skipN(name string, pos token.Pos, why string) {
	r.skipped = append(r.skipped, fmt.Sprintf("round %d: call of %s at %s left in place: %s", r.round, name, r.p.Pos(pos), why))
}

func (r *rw) skip(callee *types.Func, pos token.Pos, why string) {
	r.skipped = append(r.skipped, fmt.Sprintf("round %d: call of %s at %s left in place: %s", r.round, callee.FullName(), r.p.Pos(pos), why))
}

// wrapMethodValues: `x.m` used as a value (a callback handed to another function), m a fresh method with a pointer
// receiver and x a local pointer variable that is assigned once and whose address is not taken, is rewritten to
// `func(a…) … { return x.m(a…) }`. A method value binds x when it is evaluated, the literal reads x when it is
// called; with x never reassigned the two are the same.
func (r *rw) wrapMethodValues(pk *packages.Package, file *ast.File) {
	info := pk.TypesInfo
	callFun := map[ast.Expr]bool{}
	ast.Inspect(file, func(n ast.Node) bool {
		if c, ok := n.(*ast.CallExpr); ok {
			callFun[ast.Unparen(c.Fun)] = true
		}
		return true
	})
	var sels []*ast.SelectorExpr
	ast.Inspect(file, func(n ast.Node) bool {
		se, ok := n.(*ast.SelectorExpr)
		if !ok || callFun[se] {
			return true
		}
		sel := info.Selections[se]
		if sel == nil || sel.Kind() != types.MethodVal || len(sel.Index()) != 1 {
			return true
		}
		fn, _ := sel.Obj().(*types.Func)
		if _, isFresh := r.fresh[fn]; fn != nil && isFresh && r.pkgOf[fn] == pk {
			sels = append(sels, se)
		}
		return true
	})
	for _, se := range sels {
		fn := info.Selections[se].Obj().(*types.Func)
		sig := fn.Type().(*types.Signature)
		why := ""
		id, isID := ast.Unparen(se.X).(*ast.Ident)
		var v *types.Var
		if isID {
			v, _ = info.Uses[id].(*types.Var)
		}
		switch {
		case v == nil || v.IsField() || v.Parent() == nil || v.Parent() == pk.Types.Scope():
			why = "the receiver is not a local variable"
		case sig.Recv() == nil || !types.Identical(sig.Recv().Type(), v.Type()):
			why = "the receiver is converted"
		case sig.Variadic() || sig.TypeParams() != nil || sig.RecvTypeParams() != nil:
			why = "variadic or generic method"
		}
		if _, isPtr := types.Unalias(sig.Recv().Type()).(*types.Pointer); why == "" && !isPtr {
			why = "value receiver (copied when the method value is made)"
		}
		if why == "" {
			why = mutatedIn(info, enclosingFunc(file, se.Pos()), v)
		}
		var ps, as, rs []string
		r.site++
		if why == "" {
			for i := 0; i < sig.Params().Len(); i++ {
				ts, ok := r.typeText(pk, file, sig.Params().At(i).Type())
				if !ok {
					why = "a parameter type cannot be written at the site"
					break
				}
				a := fmt.Sprintf("mv%d_%d_a%d", r.round, r.site, i)
				ps = append(ps, a+" "+ts)
				as = append(as, a)
			}
			for i := 0; i < sig.Results().Len() && why == ""; i++ {
				ts, ok := r.typeText(pk, file, sig.Results().At(i).Type())
				if !ok {
					why = "a result type cannot be written at the site"
					break
				}
				rs = append(rs, ts)
			}
		}
		if why != "" {
			r.skipped = append(r.skipped, fmt.Sprintf("round %d: method value %s at %s left in place: %s", r.round, fn.FullName(), r.p.Pos(se.Pos()), why))
			continue
		}
		ret := "return "
		if len(rs) == 0 {
			ret = ""
		}
		text := fmt.Sprintf("func(%s) (%s) { %s%s(%s) }", strings.Join(ps, ", "), strings.Join(rs, ", "), ret, r.text(se), strings.Join(as, ", "))
		fe := r.file(r.fname(file.Pos()))
		fe.edits = append(fe.edits, edit{r.off(se.Pos()), r.off(se.End()), text})
		r.did = append(r.did, fmt.Sprintf("round %d: method value %s at %s wrapped in a literal", r.round, fn.FullName(), r.p.Pos(se.Pos())))
	}
}

// unfoldLoopConds: a loop whose only clause is a condition that calls a fresh function is rewritten so that the
// call stands in a statement of its own (`continue` still re-evaluates it: it is the first statement of the body).
func (r *rw) unfoldLoopConds(pk *packages.Package, file *ast.File) {
	info := pk.TypesInfo
	ast.Inspect(file, func(n ast.Node) bool {
		fs, ok := n.(*ast.ForStmt)
		if !ok || fs.Init != nil || fs.Post != nil || fs.Cond == nil {
			return true
		}
		var hit *types.Func
		ast.Inspect(fs.Cond, func(m ast.Node) bool {
			if _, isLit := m.(*ast.FuncLit); isLit {
				return false
			}
			if c, ok := m.(*ast.CallExpr); ok && hit == nil {
				if fn := calleeOf(info, c); fn != nil {
					if _, isFresh := r.fresh[fn]; isFresh && r.pkgOf[fn] == pk {
						hit = fn
					}
				}
			}
			return true
		})
		if hit == nil {
			return true
		}
		fe := r.file(r.fname(file.Pos()))
		fe.edits = append(fe.edits, edit{r.off(fs.Cond.Pos()), r.off(fs.Body.Lbrace) + 1, "{ if !(" + r.text(fs.Cond) + ") { break }\n"})
		r.did = append(r.did, fmt.Sprintf("round %d: loop condition calling %s at %s moved into the body", r.round, hit.FullName(), r.p.Pos(fs.Cond.Pos())))
		return true
	})
}

func enclosingFunc(file *ast.File, pos token.Pos) ast.Node {
	path, _ := astutil.PathEnclosingInterval(file, pos, pos)
	var encl ast.Node
	for _, n := range path {
		if fd, ok := n.(*ast.FuncDecl); ok {
			encl = fd
		}
	}
	return encl
}

// mutatedIn: is v assigned (other than where it is declared) or its address taken anywhere in n? "" when not.
func mutatedIn(info *types.Info, n ast.Node, v *types.Var) string {
	if n == nil {
		return "not inside a function"
	}
	why := ""
	isV := func(e ast.Expr) bool {
		i, ok := ast.Unparen(e).(*ast.Ident)
		return ok && info.Uses[i] == types.Object(v)
	}
	ast.Inspect(n, func(n ast.Node) bool {
		switch x := n.(type) {
		case *ast.AssignStmt:
			for _, l := range x.Lhs {
				if isV(l) {
					why = "the variable is reassigned"
				}
			}
		case *ast.IncDecStmt:
			if isV(x.X) {
				why = "the variable is reassigned"
			}
		case *ast.UnaryExpr:
			if x.Op == token.AND && isV(x.X) {
				why = "the address of the variable is taken"
			}
		case *ast.RangeStmt:
			if (x.Key != nil && isV(x.Key)) || (x.Value != nil && isV(x.Value)) {
				why = "the variable is reassigned"
			}
		}
		return true
	})
	return why
}

// sameNameArg: the argument is the plain name of a local variable of the caller that is never reassigned, the
// parameter has the same name and type and the callee never assigns it: the parameter needs no declaration of its
// own at the site — inside the spliced body the name already means the caller's variable, with the same value.
func (r *rw) sameNameArg(pk *packages.Package, file *ast.File, pl *plan, arg ast.Expr, par *types.Var) bool {
	id, ok := ast.Unparen(arg).(*ast.Ident)
	if !ok || par == nil || id.Name != par.Name() || id.Name == "_" {
		return false
	}
	info := pk.TypesInfo
	v, _ := info.Uses[id].(*types.Var)
	if v == nil || v.IsField() || v.Parent() == nil || v.Parent() == pk.Types.Scope() || !types.Identical(v.Type(), par.Type()) {
		return false
	}
	if mutatedIn(info, enclosingFunc(file, id.Pos()), v) != "" {
		return false
	}
	return mutatedIn(pl.cinfo, pl.body, par) == ""
}

// paramBlocks: the variables the inliner declared for a callee's parameters (`var a, b = (T)(x), (U)(y)` followed by
// `_, _ = a, b`) that hold a function literal — a callback handed to an inlined helper.
func (r *rw) paramLiterals(pk *packages.Package, file *ast.File) map[*types.Var]*litVar {
	info := pk.TypesInfo
	out := map[*types.Var]*litVar{}
	ast.Inspect(file, func(n ast.Node) bool {
		blk, ok := n.(*ast.BlockStmt)
		if !ok {
			return true
		}
		for i := 0; i+1 < len(blk.List); i++ {
			ds, ok := blk.List[i].(*ast.DeclStmt)
			if !ok {
				continue
			}
			gd, ok := ds.Decl.(*ast.GenDecl)
			if !ok || gd.Tok != token.VAR || len(gd.Specs) != 1 {
				continue
			}
			vs := gd.Specs[0].(*ast.ValueSpec)
			if vs.Type != nil || len(vs.Names) != len(vs.Values) {
				continue
			}
			as, ok := blk.List[i+1].(*ast.AssignStmt)
			if !ok || as.Tok != token.ASSIGN || len(as.Lhs) != len(as.Rhs) {
				continue
			}
			blank := true
			var named []string
			for k := range as.Lhs {
				l, ok1 := as.Lhs[k].(*ast.Ident)
				rr, ok2 := as.Rhs[k].(*ast.Ident)
				if !ok1 || !ok2 || l.Name != "_" {
					blank = false
					break
				}
				named = append(named, rr.Name)
			}
			if !blank {
				continue
			}
			var want []string
			for _, nm := range vs.Names {
				if nm.Name != "_" {
					want = append(want, nm.Name)
				}
			}
			if strings.Join(want, ",") != strings.Join(named, ",") {
				continue
			}
			for k, nm := range vs.Names {
				v, _ := info.Defs[nm].(*types.Var)
				if v == nil {
					continue
				}
				e := ast.Unparen(vs.Values[k])
				for {
					c, isCall := e.(*ast.CallExpr)
					if !isCall || len(c.Args) != 1 {
						break
					}
					if tv, has := info.Types[c.Fun]; !has || !tv.IsType() {
						break
					}
					e = ast.Unparen(c.Args[0])
				}
				if lit, isLit := e.(*ast.FuncLit); isLit {
					out[v] = &litVar{v: v, lit: lit}
				}
			}
		}
		return true
	})
	if len(out) == 0 {
		return out
	}
	// never assigned again, address never taken; count the uses
	callFun := map[*ast.Ident]bool{}
	idle := map[*ast.Ident]bool{}
	bad := map[*types.Var]bool{}
	isV := func(e ast.Expr) *types.Var {
		id, ok := ast.Unparen(e).(*ast.Ident)
		if !ok {
			return nil
		}
		v, _ := info.Uses[id].(*types.Var)
		if out[v] == nil {
			return nil
		}
		return v
	}
	ast.Inspect(file, func(n ast.Node) bool {
		switch x := n.(type) {
		case *ast.CallExpr:
			if id, ok := ast.Unparen(x.Fun).(*ast.Ident); ok {
				callFun[id] = true
			}
		case *ast.AssignStmt:
			allBlank := x.Tok == token.ASSIGN
			for _, l := range x.Lhs {
				if v := isV(l); v != nil {
					bad[v] = true
				}
				if id, ok := l.(*ast.Ident); !ok || id.Name != "_" {
					allBlank = false
				}
			}
			if allBlank {
				for _, rr := range x.Rhs {
					if id, ok := rr.(*ast.Ident); ok {
						idle[id] = true
					}
				}
			}
		case *ast.IncDecStmt:
			if v := isV(x.X); v != nil {
				bad[v] = true
			}
		case *ast.UnaryExpr:
			if v := isV(x.X); v != nil && x.Op == token.AND {
				bad[v] = true
			}
		case *ast.RangeStmt:
			if x.Key != nil {
				if v := isV(x.Key); v != nil {
					bad[v] = true
				}
			}
			if x.Value != nil {
				if v := isV(x.Value); v != nil {
					bad[v] = true
				}
			}
		}
		return true
	})
	for v := range bad {
		delete(out, v)
	}
	ast.Inspect(file, func(n ast.Node) bool {
		id, ok := n.(*ast.Ident)
		if !ok {
			return true
		}
		v, _ := info.Uses[id].(*types.Var)
		lv := out[v]
		if lv == nil {
			return true
		}
		lv.uses++
		switch {
		case idle[id]:
			lv.idle++
		case callFun[id]:
			lv.calls++
		}
		return true
	})
	return out
}

// reduceLiterals replaces calls of such a variable by the literal's body (the captured names mean the same thing at
// the call site, or the call is left in place); once every call is replaced the literal itself gives way to nil.
func (r *rw) reduceLiterals(pk *packages.Package, file *ast.File) {
	info := pk.TypesInfo
	lvs := r.paramLiterals(pk, file)
	if len(lvs) == 0 {
		return
	}
	var calls []*ast.CallExpr
	ast.Inspect(file, func(n ast.Node) bool {
		if call, ok := n.(*ast.CallExpr); ok {
			if id, ok := ast.Unparen(call.Fun).(*ast.Ident); ok {
				if v, _ := info.Uses[id].(*types.Var); lvs[v] != nil {
					calls = append(calls, call)
				}
			}
		}
		return true
	})
	var taken [][2]token.Pos
	for _, call := range calls {
		id := ast.Unparen(call.Fun).(*ast.Ident)
		lv := lvs[info.Uses[id].(*types.Var)]
		path, _ := astutil.PathEnclosingInterval(file, call.Pos(), call.End())
		pl, why := r.plan(pk, file, call, nil, lv, path)
		if pl == nil {
			r.skipN("literal "+lv.v.Name(), call.Pos(), why)
			continue
		}
		overlap := false
		for _, t := range taken {
			if pl.anchor.Pos() < t[1] && t[0] < pl.anchor.End() {
				overlap = true
			}
		}
		if overlap {
			continue
		}
		taken = append(taken, [2]token.Pos{pl.anchor.Pos(), pl.anchor.End()})
		r.emit(pk, file, pl)
	}
	var vs []*types.Var
	for v := range lvs {
		vs = append(vs, v)
	}
	sort.Slice(vs, func(i, j int) bool { return vs[i].Pos() < vs[j].Pos() })
	for _, v := range vs {
		lv := lvs[v]
		if r.reduced[v] == 0 || r.reduced[v] != lv.calls || lv.calls+lv.idle != lv.uses {
			continue
		}
		ts, ok := r.typeText(pk, file, info.TypeOf(lv.lit))
		if !ok {
			continue
		}
		fe := r.file(r.fname(file.Pos()))
		s, e := r.off(lv.lit.Pos()), r.off(lv.lit.End())
		var keep []edit
		for _, ed := range fe.edits {
			if ed.start >= s && ed.end <= e {
				continue
			}
			keep = append(keep, ed)
		}
		fe.edits = append(keep, edit{s, e, "(" + ts + ")(nil)"})
		r.did = append(r.did, fmt.Sprintf("round %d: literal %s at %s replaced by nil (every call of it inlined)", r.round, v.Name(), r.p.Pos(lv.lit.Pos())))
	}
}

// inlineFile rewrites the inlinable call sites of one file (at most one per statement and round).
func (r *rw) inlineFile(pk *packages.Package, file *ast.File) {
	info := pk.TypesInfo
	var calls []*ast.CallExpr
	ast.Inspect(file, func(n ast.Node) bool {
		call, ok := n.(*ast.CallExpr)
		if !ok {
			return true
		}
		if fn := calleeOf(info, call); fn != nil {
			if _, isFresh := r.fresh[fn]; isFresh {
				calls = append(calls, call)
			}
		}
		return true
	})
	var taken [][2]token.Pos // anchor statement ranges already rewritten this round
	for _, call := range calls {
		fn := calleeOf(info, call)
		if r.pkgOf[fn] != pk {
			r.skip(fn, call.Pos(), "callee lives in another package")
			continue
		}
		path, _ := astutil.PathEnclosingInterval(file, call.Pos(), call.End())
		pl, why := r.plan(pk, file, call, fn, nil, path)
		if pl == nil {
			r.skip(fn, call.Pos(), why)
			continue
		}
		overlap := false
		for _, t := range taken {
			if pl.anchor.Pos() < t[1] && t[0] < pl.anchor.End() {
				overlap = true
			}
		}
		if overlap {
			continue // next round
		}
		taken = append(taken, [2]token.Pos{pl.anchor.Pos(), pl.anchor.End()})
		r.emit(pk, file, pl)
	}
}

func calleeOf(info *types.Info, call *ast.CallExpr) *types.Func {
	fun := ast.Unparen(call.Fun)
	switch f := fun.(type) {
	case *ast.Ident:
		fn, _ := info.Uses[f].(*types.Func)
		return fn
	case *ast.SelectorExpr:
		if sel := info.Selections[f]; sel != nil {
			if sel.Kind() != types.MethodVal {
				return nil
			}
			fn, _ := sel.Obj().(*types.Func)
			return fn
		}
		fn, _ := info.Uses[f.Sel].(*types.Func)
		return fn
	}
	return nil
}

type plan struct {
	call     *ast.CallExpr
	callee   *types.Func  // nil when the callee is a function literal held in a local variable
	lit      *ast.FuncLit // the literal, in that case
	litVar   *types.Var   // and the variable
	body     *ast.BlockStmt
	sig      *types.Signature
	cinfo    *types.Info // type information of the callee's package
	cname    string
	recvName string
	iife     bool                    // the body is kept whole, as a literal called on the spot (a callee that defers)
	ren      map[types.Object]string // parameters renamed at this site (their name is captured by a literal argument)
	anchor   ast.Stmt                // the statement in a statement list before which the inlined block is placed
	stmt     ast.Stmt                // the statement containing the call
	wholeStm bool                    // the statement is just the call (results dropped)
	recvText string
}

func (r *rw) plan(pk *packages.Package, file *ast.File, call *ast.CallExpr, fn *types.Func, lv *litVar, path []ast.Node) (*plan, string) {
	info := pk.TypesInfo
	var body *ast.BlockStmt
	var sig *types.Signature
	var cinfo *types.Info
	var decl *ast.FuncDecl
	cname, recvName := "", "_"
	if fn != nil {
		decl = r.fresh[fn]
		body, sig, cinfo, cname = decl.Body, fn.Type().(*types.Signature), r.pkgOf[fn].TypesInfo, fn.FullName()
		if decl.Recv != nil && len(decl.Recv.List) == 1 && len(decl.Recv.List[0].Names) == 1 {
			recvName = decl.Recv.List[0].Names[0].Name
		}
	} else {
		body, sig, cinfo, cname = lv.lit.Body, info.TypeOf(lv.lit).(*types.Signature), info, "literal "+lv.v.Name()
	}
	if sig.TypeParams() != nil || sig.RecvTypeParams() != nil {
		return nil, "generic callee"
	}
	why, defers, recovers := calleeOK(cinfo, body, fn)
	if why != "" {
		return nil, why
	}
	if lv != nil {
		// the literal must not mention its own variable
		ast.Inspect(body, func(n ast.Node) bool {
			if id, ok := n.(*ast.Ident); ok && info.Uses[id] == types.Object(lv.v) {
				why = "the literal calls itself"
			}
			return true
		})
		if why != "" {
			return nil, why
		}
		for _, n := range path {
			if n == ast.Node(lv.lit) {
				return nil, "recursive call"
			}
		}
	}
	iife := false
	if defers {
		// a callee that defers can be spliced only where the call is in tail position of a body that does nothing
		// else: its deferred calls then run exactly when the caller's would (no named results for them to alter, no
		// recover). Anywhere else its body becomes a literal called on the spot: same frame for the deferred calls.
		named := false
		for i := 0; i < sig.Results().Len(); i++ {
			if n := sig.Results().At(i).Name(); n != "" && n != "_" {
				named = true
			}
		}
		if lv != nil || named || recovers || tailOnly(call, path) != "" {
			iife = true
		}
	}
	// enclosing function must not be the callee itself
	for _, n := range path {
		if fd, ok := n.(*ast.FuncDecl); ok && decl != nil && fd == decl {
			return nil, "recursive call"
		}
	}
	// nearest enclosing statement
	si := -1
	for i, n := range path {
		if _, ok := n.(ast.Stmt); ok {
			si = i
			break
		}
		if _, ok := n.(*ast.FuncLit); ok {
			break
		}
	}
	if si < 0 || si+1 >= len(path) {
		return nil, "call is not inside a statement"
	}
	stmt := path[si].(ast.Stmt)
	parent := path[si+1]
	pl := &plan{call: call, callee: fn, body: body, sig: sig, cinfo: cinfo, cname: cname, recvName: recvName, stmt: stmt, anchor: stmt}
	pl.iife = iife
	if lv != nil {
		pl.lit, pl.litVar = lv.lit, lv.v
	}
	ai := si // index of the anchor in path
	switch s := stmt.(type) {
	case *ast.GoStmt:
		if s.Call == call {
			return nil, "go statement"
		}
	case *ast.DeferStmt:
		if s.Call == call {
			return nil, "deferred call"
		}
	case *ast.ForStmt:
		return nil, "call in a loop condition"
	case *ast.RangeStmt:
		if !within(call, s.X) {
			return nil, "call in a range clause"
		}
	case *ast.IfStmt:
		if s.Init != nil {
			return nil, "call in a condition that follows an init statement"
		}
	case *ast.SwitchStmt:
		if s.Init != nil {
			return nil, "call in a switch tag that follows an init statement"
		}
	case *ast.AssignStmt, *ast.ExprStmt, *ast.ReturnStmt, *ast.DeclStmt, *ast.SendStmt:
	default:
		return nil, fmt.Sprintf("call inside a %T", stmt)
	}
	// a simple statement that is the init of a compound statement: hoist before the compound statement
	switch ps := parent.(type) {
	case *ast.IfStmt:
		if ps.Init == stmt {
			pl.anchor, ai = ps, si+1
		}
	case *ast.SwitchStmt:
		if ps.Init == stmt {
			pl.anchor, ai = ps, si+1
		}
	case *ast.TypeSwitchStmt:
		if ps.Init == stmt || ps.Assign == stmt {
			pl.anchor, ai = ps, si+1
		}
	case *ast.ForStmt:
		if ps.Init == stmt {
			pl.anchor, ai = ps, si+1
		} else {
			return nil, "call in a loop post statement"
		}
	case *ast.CommClause:
		if ps.Comm == stmt {
			return nil, "call in a select communication"
		}
	}
	if ai+1 >= len(path) {
		return nil, "no enclosing statement list"
	}
	switch gp := path[ai+1].(type) {
	case *ast.BlockStmt:
	case *ast.CaseClause:
		inBody := false
		for _, b := range gp.Body {
			if b == pl.anchor {
				inBody = true
			}
		}
		if !inBody {
			return nil, "call in a case expression"
		}
	case *ast.CommClause:
		inBody := false
		for _, b := range gp.Body {
			if b == pl.anchor {
				inBody = true
			}
		}
		if !inBody {
			return nil, "call in a select communication"
		}
	default:
		return nil, fmt.Sprintf("statement is not in a statement list (parent %T)", gp)
	}
	// the call must be the first thing its statement evaluates
	nres := sig.Results().Len()
	roots, ok := evalRoots(stmt)
	if !ok {
		return nil, "unsupported statement form"
	}
	found := false
	for _, e := range roots {
		if e == nil {
			continue
		}
		if within(call, e) {
			if !hoistable(info, e, call) {
				return nil, "the call is not the first thing its statement evaluates"
			}
			found = true
			break
		}
		if !pure(info, e) {
			return nil, "an earlier operand of the statement has effects"
		}
	}
	if !found {
		return nil, "call position not understood"
	}
	if es, ok := stmt.(*ast.ExprStmt); ok && ast.Unparen(es.X) == ast.Expr(call) {
		pl.wholeStm = true
	} else if nres == 0 {
		return nil, "call without results inside an expression"
	}
	// receiver
	if sig.Recv() != nil {
		se, ok := ast.Unparen(call.Fun).(*ast.SelectorExpr)
		if !ok {
			return nil, "method called through an expression form not understood"
		}
		sel := info.Selections[se]
		if sel == nil || sel.Kind() != types.MethodVal || len(sel.Index()) != 1 {
			return nil, "method reached through an embedded field or a method expression"
		}
		rt := sig.Recv().Type()
		xt := info.TypeOf(se.X)
		if xt == nil {
			return nil, "receiver type unknown"
		}
		xtext := r.text(se.X)
		switch {
		case types.Identical(xt, rt):
			pl.recvText = xtext
		case isPtrTo(rt, xt):
			pl.recvText = "&(" + xtext + ")"
		case isPtrTo(xt, rt):
			pl.recvText = "*(" + xtext + ")"
		default:
			return nil, "receiver conversion not understood"
		}
		if !pure(info, se.X) {
			return nil, "receiver expression has effects"
		}
	}
	// identifiers of the callee must mean the same thing at the call site
	if why := r.captureCheck(pk, file, pl); why != "" {
		return nil, why
	}
	return pl, ""
}

func isPtrTo(p, t types.Type) bool {
	pt, ok := p.Underlying().(*types.Pointer)
	if _, named := p.(*types.Named); named {
		return false
	}
	return ok && types.Identical(pt.Elem(), t)
}

func within(n ast.Node, e ast.Node) bool {
	return e != nil && e.Pos() <= n.Pos() && n.End() <= e.End()
}

// tailOnly: the call is the whole of `return call(…)` (or of an expression statement) and that statement is the
// whole body of the enclosing function or literal.
func tailOnly(call *ast.CallExpr, path []ast.Node) string {
	for i, n := range path {
		st, ok := n.(ast.Stmt)
		if !ok {
			if _, lit := n.(*ast.FuncLit); lit {
				break
			}
			continue
		}
		switch s := st.(type) {
		case *ast.ReturnStmt:
			if len(s.Results) != 1 || ast.Unparen(s.Results[0]) != ast.Expr(call) {
				return "not the whole return value"
			}
		case *ast.ExprStmt:
			if ast.Unparen(s.X) != ast.Expr(call) {
				return "not the whole statement"
			}
		default:
			return "not in tail position"
		}
		if i+2 >= len(path) {
			return "not in tail position"
		}
		blk, ok := path[i+1].(*ast.BlockStmt)
		if !ok || len(blk.List) != 1 {
			return "the caller does more than the call"
		}
		switch f := path[i+2].(type) {
		case *ast.FuncDecl:
			if f.Body == blk {
				return ""
			}
		case *ast.FuncLit:
			if f.Body == blk {
				return ""
			}
		}
		return "not in tail position"
	}
	return "not in tail position"
}

// calleeOK: the body can be spliced as statements. defers reports that the body defers (and does not recover).
func calleeOK(info *types.Info, body *ast.BlockStmt, fn *types.Func) (string, bool, bool) {
	why := ""
	defers, recovers := false, false
	ast.Inspect(body, func(n ast.Node) bool {
		if d, ok := n.(*ast.DeferStmt); ok {
			defers = true
			_ = d
		}
		return true
	})
	if defers {
		ast.Inspect(body, func(n ast.Node) bool {
			if x, ok := n.(*ast.CallExpr); ok {
				if id, ok := ast.Unparen(x.Fun).(*ast.Ident); ok {
					if b, ok := info.Uses[id].(*types.Builtin); ok && b.Name() == "recover" {
						recovers = true
					}
				}
			}
			return true
		})
	}
	ast.Inspect(body, func(n ast.Node) bool {
		if why != "" {
			return false
		}
		switch x := n.(type) {
		case *ast.FuncLit:
			return false
		case *ast.DeferStmt:
			// decided at the call site (tailOnly)
		case *ast.LabeledStmt:
			// labels are renamed per site when the body is copied (bodyText)
		case *ast.BranchStmt:
			if x.Tok == token.GOTO {
				why = "callee uses goto"
			}
		case *ast.CallExpr:
			if id, ok := ast.Unparen(x.Fun).(*ast.Ident); ok {
				if b, ok := info.Uses[id].(*types.Builtin); ok && b.Name() == "recover" {
					why = "callee recovers"
				}
			}
			if fn != nil && calleeOf(info, x) == fn {
				why = "callee is recursive"
			}
		}
		return true
	})
	return why, defers, recovers
}

// evalRoots lists the operand expressions of a statement in evaluation order.
func evalRoots(s ast.Stmt) ([]ast.Expr, bool) {
	switch x := s.(type) {
	case *ast.ExprStmt:
		return []ast.Expr{x.X}, true
	case *ast.AssignStmt:
		var out []ast.Expr
		if x.Tok != token.DEFINE {
			for _, l := range x.Lhs {
				if _, isId := l.(*ast.Ident); !isId {
					out = append(out, l)
				}
			}
		}
		return append(out, x.Rhs...), true
	case *ast.ReturnStmt:
		return x.Results, true
	case *ast.DeclStmt:
		gd, ok := x.Decl.(*ast.GenDecl)
		if !ok || gd.Tok != token.VAR {
			return nil, false
		}
		var out []ast.Expr
		for _, sp := range gd.Specs {
			if vs, ok := sp.(*ast.ValueSpec); ok {
				out = append(out, vs.Values...)
			}
		}
		return out, true
	case *ast.SendStmt:
		return []ast.Expr{x.Chan, x.Value}, true
	case *ast.IfStmt:
		return []ast.Expr{x.Cond}, true
	case *ast.SwitchStmt:
		return []ast.Expr{x.Tag}, true
	case *ast.RangeStmt:
		return []ast.Expr{x.X}, true
	case *ast.GoStmt:
		return append([]ast.Expr{x.Call.Fun}, x.Call.Args...), true
	case *ast.DeferStmt:
		return append([]ast.Expr{x.Call.Fun}, x.Call.Args...), true
	}
	return nil, false
}

// pure: evaluating e calls nothing and receives nothing.
func pure(info *types.Info, e ast.Expr) bool {
	ok := true
	ast.Inspect(e, func(n ast.Node) bool {
		switch x := n.(type) {
		case *ast.FuncLit:
			return false
		case *ast.CallExpr:
			if tv, has := info.Types[x.Fun]; has && tv.IsType() {
				return true // conversion
			}
			if id, isId := ast.Unparen(x.Fun).(*ast.Ident); isId {
				if b, isB := info.Uses[id].(*types.Builtin); isB && (b.Name() == "len" || b.Name() == "cap") {
					return true
				}
			}
			ok = false
		case *ast.UnaryExpr:
			if x.Op == token.ARROW {
				ok = false
			}
		}
		return ok
	})
	return ok
}

// hoistable: call is evaluated before anything with effects inside e, and unconditionally.
func hoistable(info *types.Info, e ast.Expr, call *ast.CallExpr) bool {
	if e == ast.Expr(call) {
		return true
	}
	switch x := e.(type) {
	case *ast.ParenExpr:
		return hoistable(info, x.X, call)
	case *ast.UnaryExpr:
		if x.Op == token.ARROW {
			return false
		}
		return hoistable(info, x.X, call)
	case *ast.StarExpr:
		return hoistable(info, x.X, call)
	case *ast.BinaryExpr:
		if within(call, x.X) {
			return hoistable(info, x.X, call)
		}
		if x.Op == token.LAND || x.Op == token.LOR {
			return false
		}
		return pure(info, x.X) && hoistable(info, x.Y, call)
	case *ast.SelectorExpr:
		return hoistable(info, x.X, call)
	case *ast.TypeAssertExpr:
		return hoistable(info, x.X, call)
	case *ast.IndexExpr:
		if within(call, x.X) {
			return hoistable(info, x.X, call)
		}
		return pure(info, x.X) && hoistable(info, x.Index, call)
	case *ast.SliceExpr:
		if within(call, x.X) {
			return hoistable(info, x.X, call)
		}
		return false
	case *ast.CallExpr:
		if within(call, x.Fun) {
			return hoistable(info, x.Fun, call)
		}
		if !pure(info, x.Fun) {
			return false
		}
		for _, a := range x.Args {
			if within(call, a) {
				return hoistable(info, a, call)
			}
			if !pure(info, a) {
				return false
			}
		}
	case *ast.CompositeLit:
		for _, el := range x.Elts {
			v := el
			if kv, ok := el.(*ast.KeyValueExpr); ok {
				if within(call, kv.Key) {
					return false
				}
				v = kv.Value
			}
			if within(call, v) {
				return hoistable(info, v, call)
			}
			if !pure(info, el) {
				return false
			}
		}
	}
	return false
}

// captureCheck: every package-level, imported or predeclared name the callee's body (and signature) uses must
// resolve to the same object at the call site; imports the caller's file lacks are added.
func (r *rw) captureCheck(pk *packages.Package, file *ast.File, pl *plan) string {
	info := pl.cinfo
	callerFile := r.fname(file.Pos())
	scope := pk.Types.Scope().Innermost(pl.anchor.Pos())
	if scope == nil {
		return "no scope at the call site"
	}
	why := ""
	check := func(id *ast.Ident) {
		obj := info.Uses[id]
		if obj == nil {
			return
		}
		switch o := obj.(type) {
		case *types.PkgName:
			_, at := scope.LookupParent(id.Name, pl.anchor.Pos())
			if at == nil {
				// the caller's file does not import it (or under another name)
				if other := importName(pk, file, o.Imported().Path()); other != "" && other != id.Name {
					why = "package " + o.Imported().Path() + " is imported under another name at the call site"
					return
				}
				if pk.Types.Scope().Lookup(id.Name) != nil || types.Universe.Lookup(id.Name) != nil {
					why = "import name " + id.Name + " clashes at the call site"
					return
				}
				if r.addImports[callerFile] == nil {
					r.addImports[callerFile] = map[string]string{}
				}
				r.addImports[callerFile][id.Name] = o.Imported().Path()
				return
			}
			if pn, ok := at.(*types.PkgName); !ok || pn.Imported() != o.Imported() {
				why = "name " + id.Name + " means something else at the call site"
			}
		default:
			par := obj.Parent()
			if par != types.Universe && (obj.Pkg() == nil || par != obj.Pkg().Scope()) {
				// a local of the callee, a field or a method — or, for a literal, a variable (type, constant) of the
				// enclosing function that it captures: that one must be what the name means at the call site too
				if pl.lit != nil && par != nil && !(pl.lit.Pos() <= obj.Pos() && obj.Pos() < pl.lit.End()) {
					if _, at := scope.LookupParent(id.Name, pl.anchor.Pos()); at != obj {
						why = "captured name " + id.Name + " means something else at the call site"
					}
				}
				return
			}
			_, at := scope.LookupParent(id.Name, pl.anchor.Pos())
			if at != obj {
				why = "name " + id.Name + " means something else at the call site"
			}
		}
	}
	var walk func(n ast.Node)
	walk = func(n ast.Node) {
		ast.Inspect(n, func(m ast.Node) bool {
			if why != "" {
				return false
			}
			switch x := m.(type) {
			case *ast.SelectorExpr:
				// the selected name is resolved through the operand (its type, or the package it names)
				walk(x.X)
				return false
			case *ast.Ident:
				check(x)
			}
			return true
		})
	}
	walk(pl.body)
	return why
}

func importName(pk *packages.Package, file *ast.File, path string) string {
	for _, sp := range file.Imports {
		if strings.Trim(sp.Path.Value, "\"`") != path {
			continue
		}
		if sp.Name != nil {
			return sp.Name.Name
		}
		if pn, ok := pk.TypesInfo.Implicits[sp].(*types.PkgName); ok {
			return pn.Name()
		}
	}
	return ""
}

// typeText renders t as source text valid in file (adding imports the file lacks).
func (r *rw) typeText(pk *packages.Package, file *ast.File, t types.Type) (string, bool) {
	callerFile := r.fname(file.Pos())
	ok := true
	s := types.TypeString(t, func(other *types.Package) string {
		if other == pk.Types {
			return ""
		}
		if n := importName(pk, file, other.Path()); n != "" {
			if n == "_" || n == "." {
				ok = false
			}
			r.use(callerFile, other.Path())
			return n
		}
		if n, has := r.findAdded(callerFile, other.Path()); has {
			r.use(callerFile, other.Path())
			return n
		}
		name := other.Name()
		if pk.Types.Scope().Lookup(name) != nil || types.Universe.Lookup(name) != nil {
			ok = false
			return name
		}
		for _, sp := range file.Imports {
			if importLocal(pk, sp) == name {
				ok = false
			}
		}
		if r.addImports[callerFile] == nil {
			r.addImports[callerFile] = map[string]string{}
		}
		r.addImports[callerFile][name] = other.Path()
		return name
	})
	return s, ok
}

func importLocal(pk *packages.Package, sp *ast.ImportSpec) string {
	if sp.Name != nil {
		return sp.Name.Name
	}
	if pn, ok := pk.TypesInfo.Implicits[sp].(*types.PkgName); ok {
		return pn.Name()
	}
	return ""
}

func (r *rw) findAdded(file, path string) (string, bool) {
	for n, p := range r.addImports[file] {
		if p == path {
			return n, true
		}
	}
	return "", false
}

func (r *rw) use(file, path string) {
	if r.newPkgUses[file] == nil {
		r.newPkgUses[file] = map[string]int{}
	}
	r.newPkgUses[file][path]++
}

// emit writes the edits of one planned site.
func (r *rw) emit(pk *packages.Package, file *ast.File, pl *plan) {
	r.site++
	k := fmt.Sprintf("%d_%d", r.round, r.site)
	sig := pl.sig
	var b strings.Builder
	// result temporaries
	var temps []string
	for i := 0; i < sig.Results().Len(); i++ {
		ts, ok := r.typeText(pk, file, sig.Results().At(i).Type())
		if !ok {
			r.skipN(pl.cname, pl.call.Pos(), "a result type cannot be written at the call site")
			return
		}
		t := fmt.Sprintf("inl%s_r%d", k, i)
		temps = append(temps, t)
		fmt.Fprintf(&b, "var %s %s\n", t, ts)
	}
	b.WriteString("{\n")
	// a parameter whose name a literal argument captures from the caller (`scan(&cred, func() { … cred … })` with a
	// parameter called cred) is renamed in this copy of the body: the literal must keep meaning the caller's variable
	// when it is itself inlined later
	pl.ren = map[types.Object]string{}
	capt := map[string]bool{}
	for _, a := range pl.call.Args {
		ast.Inspect(a, func(n ast.Node) bool {
			lit, ok := n.(*ast.FuncLit)
			if !ok {
				return true
			}
			ast.Inspect(lit.Body, func(m ast.Node) bool {
				if id, ok := m.(*ast.Ident); ok {
					if o := pk.TypesInfo.Uses[id]; o != nil && o.Pos().IsValid() && !(lit.Pos() <= o.Pos() && o.Pos() < lit.End()) {
						capt[id.Name] = true
					}
				}
				return true
			})
			return false
		})
	}
	pname := func(v *types.Var, dflt string) string {
		if v != nil && dflt != "_" && capt[dflt] {
			nn := fmt.Sprintf("%s_inl%s", dflt, k)
			pl.ren[v] = nn
			return nn
		}
		return dflt
	}
	// receiver and parameters
	var names, vals []string
	if rv := sig.Recv(); rv != nil {
		ts, ok := r.typeText(pk, file, rv.Type())
		if !ok {
			r.skipN(pl.cname, pl.call.Pos(), "the receiver type cannot be written at the call site")
			return
		}
		se, _ := ast.Unparen(pl.call.Fun).(*ast.SelectorExpr)
		if se == nil || !r.sameNameArg(pk, file, pl, se.X, rv) || pl.recvText != rv.Name() {
			names = append(names, pname(rv, pl.recvName))
			vals = append(vals, "("+ts+")("+pl.recvText+")")
		}
	}
	np := sig.Params().Len()
	args := pl.call.Args
	if len(args) == 1 && np > 1 {
		r.skipN(pl.cname, pl.call.Pos(), "arguments are the results of another call")
		return
	}
	for i := 0; i < np; i++ {
		pv := sig.Params().At(i)
		ts, ok := r.typeText(pk, file, pv.Type())
		if !ok {
			r.skipN(pl.cname, pl.call.Pos(), "a parameter type cannot be written at the call site")
			return
		}
		name := pv.Name()
		if name == "" {
			name = "_"
		}
		if !(i < len(args) && !(sig.Variadic() && i == np-1) && r.sameNameArg(pk, file, pl, args[i], pv)) {
			name = pname(pv, name)
		}
		names = append(names, name)
		if sig.Variadic() && i == np-1 {
			if pl.call.Ellipsis.IsValid() {
				vals = append(vals, "("+ts+")("+r.text(args[i])+")")
			} else if len(args) <= i {
				vals = append(vals, "("+ts+")(nil)")
			} else {
				var els []string
				for _, a := range args[i:] {
					els = append(els, r.text(a))
				}
				vals = append(vals, ts+"{"+strings.Join(els, ", ")+"}")
			}
			continue
		}
		if i >= len(args) {
			r.skipN(pl.cname, pl.call.Pos(), "argument count not understood")
			return
		}
		if r.sameNameArg(pk, file, pl, args[i], pv) {
			names = names[:len(names)-1]
			continue
		}
		vals = append(vals, "("+ts+")("+r.text(args[i])+")")
	}
	if len(names) > 0 {
		fmt.Fprintf(&b, "var %s = %s\n", strings.Join(names, ", "), strings.Join(vals, ", "))
		var used []string
		for _, n := range names {
			if n != "_" {
				used = append(used, n)
			}
		}
		if len(used) > 0 {
			fmt.Fprintf(&b, "%s = %s\n", strings.Repeat("_, ", len(used)-1)+"_", strings.Join(used, ", "))
		}
	}
	if pl.iife {
		var rs []string
		for i := 0; i < sig.Results().Len(); i++ {
			rv := sig.Results().At(i)
			ts, _ := r.typeText(pk, file, rv.Type())
			if rv.Name() != "" {
				ts = rv.Name() + " " + ts
			}
			rs = append(rs, ts)
		}
		whole, _, _ := r.bodyText(pl, nil, nil, "")
		if len(temps) > 0 {
			fmt.Fprintf(&b, "%s = ", strings.Join(temps, ", "))
		}
		fmt.Fprintf(&b, "func() (%s) {\n//line %s:%d\n%s\n}()\n}\n", strings.Join(rs, ", "), r.fname(pl.body.Pos()),
			r.p.Fset.PositionFor(pl.body.Lbrace, false).Line, whole)
		r.finishEmit(pk, file, pl, &b, temps)
		return
	}
	// named results are locals of the inlined block
	var named []string
	for i := 0; i < sig.Results().Len(); i++ {
		rv := sig.Results().At(i)
		if rv.Name() != "" && rv.Name() != "_" {
			ts, _ := r.typeText(pk, file, rv.Type())
			fmt.Fprintf(&b, "var %s %s\n_ = %s\n", rv.Name(), ts, rv.Name())
		}
		named = append(named, rv.Name())
	}
	// body with returns rewritten
	label := "inl" + k + "_L"
	body, usesLabel, ok := r.bodyText(pl, temps, named, label)
	if !ok {
		r.skipN(pl.cname, pl.call.Pos(), "a return statement of the callee is not understood")
		return
	}
	calleeFile := r.fname(pl.body.Pos())
	lb := r.p.Fset.PositionFor(pl.body.Lbrace, false).Line
	if usesLabel {
		fmt.Fprintf(&b, "%s:\nswitch {\ndefault:\n", label)
	} else {
		b.WriteString("{\n")
	}
	fmt.Fprintf(&b, "//line %s:%d\n", calleeFile, lb)
	b.WriteString(body)
	b.WriteString("\n}\n}\n")
	r.finishEmit(pk, file, pl, &b, temps)
}

// finishEmit places the text built for one site and does the bookkeeping.
func (r *rw) finishEmit(pk *packages.Package, file *ast.File, pl *plan, bp *strings.Builder, temps []string) {
	b := bp
	cinfo := pl.cinfo
	callerFile := r.fname(file.Pos())
	al := r.p.Fset.PositionFor(pl.anchor.Pos(), false).Line
	fe := r.file(callerFile)
	if pl.wholeStm {
		for _, t := range temps {
			fmt.Fprintf(b, "_ = %s\n", t)
		}
		fmt.Fprintf(b, "//line %s:%d\n", callerFile, r.p.Fset.PositionFor(pl.stmt.End(), false).Line)
		// replace the whole statement
		fe.edits = append(fe.edits, edit{r.off(pl.stmt.Pos()), r.off(pl.stmt.End()), "\n" + b.String()})
	} else {
		fmt.Fprintf(b, "//line %s:%d\n", callerFile, al)
		fe.edits = append(fe.edits, edit{r.off(pl.anchor.Pos()), r.off(pl.anchor.Pos()), "\n" + b.String()})
		fe.edits = append(fe.edits, edit{r.off(pl.call.Pos()), r.off(pl.call.End()), strings.Join(temps, ", ")})
	}
	// bookkeeping
	if pl.callee != nil {
		r.inlinedUses[pl.callee]++
		r.copied[pl.callee] = true
	} else {
		r.reduced[pl.litVar]++
	}
	ast.Inspect(pl.body, func(n ast.Node) bool {
		if id, ok := n.(*ast.Ident); ok {
			if pn, ok := cinfo.Uses[id].(*types.PkgName); ok {
				r.use(callerFile, pn.Imported().Path())
			}
		}
		return true
	})
	r.did = append(r.did, fmt.Sprintf("round %d: %s inlined at %s", r.round, pl.cname, r.p.Pos(pl.call.Pos())))
}

// bodyText is the callee's body with `return …` turned into `temps = …; break label`.
func (r *rw) bodyText(pl *plan, temps, named []string, label string) (string, bool, bool) {
	fe := r.file(r.fname(pl.body.Pos()))
	start, end := r.off(pl.body.Lbrace)+1, r.off(pl.body.Rbrace)
	var eds []edit
	okAll := true
	var rets []*ast.ReturnStmt
	labels := map[string]bool{}
	if label != "" {
		ast.Inspect(pl.body, func(n ast.Node) bool {
			switch x := n.(type) {
			case *ast.FuncLit:
				return false
			case *ast.LabeledStmt:
				labels[x.Label.Name] = true
			}
			return true
		})
	}
	if len(pl.ren) > 0 {
		ast.Inspect(pl.body, func(n ast.Node) bool {
			if id, ok := n.(*ast.Ident); ok {
				if nn, has := pl.ren[pl.cinfo.Uses[id]]; has {
					eds = append(eds, edit{r.off(id.Pos()), r.off(id.End()), nn})
				}
			}
			return true
		})
	}
	ast.Inspect(pl.body, func(n ast.Node) bool {
		switch x := n.(type) {
		case *ast.FuncLit:
			return false
		case *ast.LabeledStmt:
			if label == "" {
				return true
			}
			eds = append(eds, edit{r.off(x.Label.Pos()), r.off(x.Label.End()), x.Label.Name + "_" + label})
		case *ast.BranchStmt:
			if x.Label != nil && labels[x.Label.Name] {
				eds = append(eds, edit{r.off(x.Label.Pos()), r.off(x.Label.End()), x.Label.Name + "_" + label})
			}
		case *ast.ReturnStmt:
			if label != "" {
				rets = append(rets, x)
			}
		}
		return true
	})
	// a return that is the last statement of the body needs no jump
	var last ast.Stmt
	if n := len(pl.body.List); n > 0 {
		last = pl.body.List[n-1]
	}
	usesLabel := false
	for _, ret := range rets {
		var t string
		switch {
		case len(temps) == 0:
			t = ""
		case len(ret.Results) == 0:
			// bare return of named results
			for _, n := range named {
				if n == "" || n == "_" {
					okAll = false
				}
			}
			t = strings.Join(temps, ", ") + " = " + strings.Join(named, ", ")
		default:
			var rs []string
			for _, e := range ret.Results {
				rs = append(rs, string(fe.src[r.off(e.Pos()):r.off(e.End())]))
			}
			t = strings.Join(temps, ", ") + " = " + strings.Join(rs, ", ")
		}
		if ast.Stmt(ret) == last {
			eds = append(eds, edit{r.off(ret.Pos()), r.off(ret.End()), t})
			continue
		}
		usesLabel = true
		if t != "" {
			t += "; "
		}
		eds = append(eds, edit{r.off(ret.Pos()), r.off(ret.End()), "{ " + t + "break " + label + " }"})
	}
	sort.Slice(eds, func(i, j int) bool { return eds[i].start < eds[j].start })
	var out []byte
	at := start
	for _, e := range eds {
		if e.start < at {
			return "", false, false
		}
		out = append(out, fe.src[at:e.start]...)
		out = append(out, e.text...)
		at = e.end
	}
	out = append(out, fe.src[at:end]...)
	return string(out), usesLabel, okAll
}

// fixImports adds the imports inlined text needs and removes those left unused by dropped declarations.
func (r *rw) fixImports() {
	for _, pk := range r.p.Pkgs {
		for _, file := range pk.Syntax {
			name := r.fname(file.Pos())
			fe, touched := r.files[name]
			if !touched || len(fe.edits) == 0 {
				continue
			}
			// additions
			if add := r.addImports[name]; len(add) > 0 {
				var ns []string
				for n := range add {
					ns = append(ns, n)
				}
				sort.Strings(ns)
				var b strings.Builder
				for _, n := range ns {
					fmt.Fprintf(&b, "\nimport %s %q\n", n, add[n])
				}
				at := r.off(file.Name.End())
				fe.edits = append(fe.edits, edit{at, at, b.String()})
			}
			// removals
			dels := r.deleted[name]
			if len(dels) == 0 {
				continue
			}
			inDel := func(pos token.Pos) bool {
				o := r.off(pos)
				for _, d := range dels {
					if o >= d[0] && o < d[1] {
						return true
					}
				}
				return false
			}
			left := map[*types.PkgName]int{}
			ast.Inspect(file, func(n ast.Node) bool {
				if id, ok := n.(*ast.Ident); ok {
					if pn, ok := pk.TypesInfo.Uses[id].(*types.PkgName); ok && !inDel(id.Pos()) {
						left[pn]++
					}
				}
				return true
			})
			for _, decl := range file.Decls {
				gd, ok := decl.(*ast.GenDecl)
				if !ok || gd.Tok != token.IMPORT {
					continue
				}
				for _, sp := range gd.Specs {
					is := sp.(*ast.ImportSpec)
					if is.Name != nil && (is.Name.Name == "_" || is.Name.Name == ".") {
						continue
					}
					var pn *types.PkgName
					if is.Name != nil {
						pn, _ = pk.TypesInfo.Defs[is.Name].(*types.PkgName)
					} else {
						pn, _ = pk.TypesInfo.Implicits[is].(*types.PkgName)
					}
					if pn == nil || left[pn] > 0 || r.newPkgUses[name][pn.Imported().Path()] > 0 {
						continue
					}
					if gd.Lparen.IsValid() {
						fe.edits = append(fe.edits, edit{r.off(is.Pos()), r.off(is.End()), ""})
					} else {
						fe.edits = append(fe.edits, edit{r.off(gd.Pos()), r.off(gd.End()), ""})
					}
				}
			}
		}
	}
}
