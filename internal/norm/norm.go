// Package norm normalises the analysed tree before the rules run: a function that did not exist in the reviewed
// tree (an.Prog.Fresh: its name is not recorded in anchors.json and no recorded function was renamed to it) is
// analysed as part of its callers. Every static call of such a function from its own package is replaced, in an
// in-memory overlay of the source, by the callee's body (statement-level inlining: parameters bound to the
// arguments, results assigned to temporaries, `return` turned into assign-and-leave), and the function is dropped
// once nothing refers to it. The rules then see the shape the code had before a helper was extracted from it.
//
// The rewrite is semantics-preserving by construction and declines (leaving the call in place, with the reason
// recorded) whenever one of its preconditions does not hold: callee and caller in one package, no defer / recover /
// labels / goto / recursion / type parameters in the callee, the call is the first thing its statement evaluates,
// the statement sits in a statement list, no identifier of the callee is captured by a declaration at the call site.
// The rewritten tree is type-checked again; if it does not type-check the normalisation is abandoned and the
// original tree is analysed as it stands.
package norm

import (
	"fmt"
	"go/ast"
	"go/token"
	"go/types"
	"os"
	"sort"
	"strings"

	"golang.org/x/tools/go/ast/astutil"
	"golang.org/x/tools/go/packages"
	"golang.org/x/tools/go/ssa"

	"verif/internal/an"
)

// Load loads dir with the overlay and normalises it (at most maxRounds rewrite rounds).
func Load(dir string, overlay map[string][]byte) (*an.Prog, error) {
	p, err := an.Load(dir, overlay)
	if err != nil {
		return nil, err
	}
	var notes []string
	const maxRounds = 4
	for round := 1; round <= maxRounds; round++ {
		fresh := p.Fresh()
		if len(fresh) == 0 {
			break
		}
		ov, did, skipped := rewrite(p, fresh, round)
		if len(did) == 0 {
			notes = append(notes, skipped...)
			break
		}
		p2, err := an.Load(dir, ov)
		if err != nil {
			notes = append(notes, fmt.Sprintf("round %d abandoned (the rewritten tree does not type-check: %v); analysing the tree of the previous round", round, err))
			notes = append(notes, skipped...)
			break
		}
		notes = append(notes, did...)
		if round == maxRounds {
			notes = append(notes, skipped...)
		}
		p = p2
	}
	p.Norm = notes
	return p, nil
}

type edit struct {
	start, end int // byte offsets in the file
	text       string
}

type fileEdits struct {
	name  string
	src   []byte
	edits []edit
}

type rw struct {
	p       *an.Prog
	files   map[string]*fileEdits
	fresh   map[*types.Func]*ast.FuncDecl
	pkgOf   map[*types.Func]*packages.Package
	site    int
	round   int
	did     []string
	skipped []string
	// bookkeeping for the deletion of fresh functions and unused imports
	inlinedUses map[*types.Func]int
	copied      map[*types.Func]bool         // fresh functions whose (original) body text was copied somewhere this round
	addImports  map[string]map[string]string // file → local name → path
	newPkgUses  map[string]map[string]int    // file → import path → uses added by inlined text
	deleted     map[string][][2]int          // file → deleted byte ranges
}

func (r *rw) file(name string) *fileEdits {
	if fe, ok := r.files[name]; ok {
		return fe
	}
	var src []byte
	if b, ok := r.p.Overlay[name]; ok {
		src = b
	} else {
		src, _ = os.ReadFile(name)
	}
	fe := &fileEdits{name: name, src: src}
	r.files[name] = fe
	return fe
}

func (r *rw) off(pos token.Pos) int { return r.p.Fset.PositionFor(pos, false).Offset }
func (r *rw) fname(pos token.Pos) string {
	return r.p.Fset.PositionFor(pos, false).Filename
}
func (r *rw) text(n ast.Node) string {
	fe := r.file(r.fname(n.Pos()))
	return string(fe.src[r.off(n.Pos()):r.off(n.End())])
}

func rewrite(p *an.Prog, fresh []*ssa.Function, round int) (map[string][]byte, []string, []string) {
	r := &rw{p: p, files: map[string]*fileEdits{}, fresh: map[*types.Func]*ast.FuncDecl{}, pkgOf: map[*types.Func]*packages.Package{}, round: round,
		inlinedUses: map[*types.Func]int{}, copied: map[*types.Func]bool{}, addImports: map[string]map[string]string{}, newPkgUses: map[string]map[string]int{}, deleted: map[string][][2]int{}}
	for _, f := range fresh {
		obj, _ := f.Object().(*types.Func)
		decl, _ := f.Syntax().(*ast.FuncDecl)
		if obj == nil || decl == nil || decl.Body == nil {
			continue
		}
		r.fresh[obj] = decl
	}
	for _, pk := range p.Pkgs {
		for obj := range r.fresh {
			if obj.Pkg() == pk.Types {
				r.pkgOf[obj] = pk
			}
		}
	}
	// call sites
	uses := map[*types.Func]int{}
	for _, pk := range p.Pkgs {
		if pk.TypesInfo == nil {
			continue
		}
		for id, o := range pk.TypesInfo.Uses {
			if fn, ok := o.(*types.Func); ok {
				if _, isFresh := r.fresh[fn]; isFresh {
					uses[fn]++
					_ = id
				}
			}
		}
	}
	for _, pk := range p.Pkgs {
		if pk.TypesInfo == nil {
			continue
		}
		for _, file := range pk.Syntax {
			r.inlineFile(pk, file)
		}
	}
	// drop fresh functions nothing refers to any more
	var objs []*types.Func
	for o := range r.fresh {
		objs = append(objs, o)
	}
	sort.Slice(objs, func(i, j int) bool { return objs[i].FullName() < objs[j].FullName() })
	for _, o := range objs {
		if uses[o] != r.inlinedUses[o] || r.usedInsideCopied(o) {
			continue
		}
		if !droppable(o) {
			continue
		}
		decl := r.fresh[o]
		start := decl.Pos()
		if decl.Doc != nil {
			start = decl.Doc.Pos()
		}
		fn := r.fname(decl.Pos())
		fe := r.file(fn)
		// edits inside the dropped declaration are moot
		s, e := r.off(start), r.off(decl.End())
		var keep []edit
		for _, ed := range fe.edits {
			if ed.start >= s && ed.end <= e {
				continue
			}
			keep = append(keep, ed)
		}
		fe.edits = append(keep, edit{s, e, ""})
		r.deleted[fn] = append(r.deleted[fn], [2]int{s, e})
		r.did = append(r.did, fmt.Sprintf("round %d: dropped %s (no reference left)", round, o.FullName()))
	}
	r.fixImports()
	if len(r.did) == 0 {
		return nil, nil, r.skipped
	}
	ov := map[string][]byte{}
	for k, v := range p.Overlay {
		ov[k] = v
	}
	for name, fe := range r.files {
		if len(fe.edits) == 0 {
			continue
		}
		out, ok := apply(fe)
		if !ok {
			r.skipped = append(r.skipped, fmt.Sprintf("round %d: overlapping edits in %s; file left as it is", round, name))
			continue
		}
		ov[name] = out
	}
	sort.Strings(r.did)
	sort.Strings(r.skipped)
	return ov, r.did, r.skipped
}

// a method that may be needed to satisfy an interface is never dropped; neither is an exported function
func droppable(o *types.Func) bool {
	if o.Exported() {
		return false
	}
	return true
}

// usedInsideCopied: is o referenced from the body of a fresh function whose original text was copied this round?
func (r *rw) usedInsideCopied(o *types.Func) bool {
	for c, decl := range r.fresh {
		if !r.copied[c] {
			continue
		}
		pk := r.pkgOf[c]
		found := false
		ast.Inspect(decl.Body, func(n ast.Node) bool {
			if id, ok := n.(*ast.Ident); ok && pk.TypesInfo.Uses[id] == types.Object(o) {
				found = true
			}
			return !found
		})
		if found {
			return true
		}
	}
	return false
}

func apply(fe *fileEdits) ([]byte, bool) {
	sort.SliceStable(fe.edits, func(i, j int) bool {
		if fe.edits[i].start != fe.edits[j].start {
			return fe.edits[i].start < fe.edits[j].start
		}
		return fe.edits[i].end < fe.edits[j].end
	})
	var out []byte
	at := 0
	for _, e := range fe.edits {
		if e.start < at {
			return nil, false
		}
		out = append(out, fe.src[at:e.start]...)
		out = append(out, e.text...)
		at = e.end
	}
	out = append(out, fe.src[at:]...)
	return out, true
}

func (r *rw) skip(callee *types.Func, pos token.Pos, why string) {
	r.skipped = append(r.skipped, fmt.Sprintf("round %d: call of %s at %s left in place: %s", r.round, callee.FullName(), r.p.Pos(pos), why))
}

// inlineFile rewrites the inlinable call sites of one file (at most one per statement and round).
func (r *rw) inlineFile(pk *packages.Package, file *ast.File) {
	info := pk.TypesInfo
	var calls []*ast.CallExpr
	ast.Inspect(file, func(n ast.Node) bool {
		call, ok := n.(*ast.CallExpr)
		if !ok {
			return true
		}
		if fn := calleeOf(info, call); fn != nil {
			if _, isFresh := r.fresh[fn]; isFresh {
				calls = append(calls, call)
			}
		}
		return true
	})
	var taken [][2]token.Pos // anchor statement ranges already rewritten this round
	for _, call := range calls {
		fn := calleeOf(info, call)
		if r.pkgOf[fn] != pk {
			r.skip(fn, call.Pos(), "callee lives in another package")
			continue
		}
		path, _ := astutil.PathEnclosingInterval(file, call.Pos(), call.End())
		pl, why := r.plan(pk, file, call, fn, path)
		if pl == nil {
			r.skip(fn, call.Pos(), why)
			continue
		}
		overlap := false
		for _, t := range taken {
			if pl.anchor.Pos() < t[1] && t[0] < pl.anchor.End() {
				overlap = true
			}
		}
		if overlap {
			continue // next round
		}
		taken = append(taken, [2]token.Pos{pl.anchor.Pos(), pl.anchor.End()})
		r.emit(pk, file, pl)
	}
}

func calleeOf(info *types.Info, call *ast.CallExpr) *types.Func {
	fun := ast.Unparen(call.Fun)
	switch f := fun.(type) {
	case *ast.Ident:
		fn, _ := info.Uses[f].(*types.Func)
		return fn
	case *ast.SelectorExpr:
		if sel := info.Selections[f]; sel != nil {
			if sel.Kind() != types.MethodVal {
				return nil
			}
			fn, _ := sel.Obj().(*types.Func)
			return fn
		}
		fn, _ := info.Uses[f.Sel].(*types.Func)
		return fn
	}
	return nil
}

type plan struct {
	call     *ast.CallExpr
	callee   *types.Func
	decl     *ast.FuncDecl
	anchor   ast.Stmt // the statement in a statement list before which the inlined block is placed
	stmt     ast.Stmt // the statement containing the call
	wholeStm bool     // the statement is just the call (results dropped)
	recvText string
}

func (r *rw) plan(pk *packages.Package, file *ast.File, call *ast.CallExpr, fn *types.Func, path []ast.Node) (*plan, string) {
	info := pk.TypesInfo
	decl := r.fresh[fn]
	sig := fn.Type().(*types.Signature)
	if sig.TypeParams() != nil || sig.RecvTypeParams() != nil {
		return nil, "generic callee"
	}
	if why := calleeOK(r.pkgOf[fn].TypesInfo, decl, fn); why != "" {
		return nil, why
	}
	// enclosing function must not be the callee itself
	for _, n := range path {
		if fd, ok := n.(*ast.FuncDecl); ok && fd == decl {
			return nil, "recursive call"
		}
	}
	// nearest enclosing statement
	si := -1
	for i, n := range path {
		if _, ok := n.(ast.Stmt); ok {
			si = i
			break
		}
		if _, ok := n.(*ast.FuncLit); ok {
			break
		}
	}
	if si < 0 || si+1 >= len(path) {
		return nil, "call is not inside a statement"
	}
	stmt := path[si].(ast.Stmt)
	parent := path[si+1]
	pl := &plan{call: call, callee: fn, decl: decl, stmt: stmt, anchor: stmt}
	ai := si // index of the anchor in path
	switch s := stmt.(type) {
	case *ast.GoStmt:
		if s.Call == call {
			return nil, "go statement"
		}
	case *ast.DeferStmt:
		if s.Call == call {
			return nil, "deferred call"
		}
	case *ast.ForStmt:
		return nil, "call in a loop condition"
	case *ast.RangeStmt:
		if !within(call, s.X) {
			return nil, "call in a range clause"
		}
	case *ast.IfStmt:
		if s.Init != nil {
			return nil, "call in a condition that follows an init statement"
		}
	case *ast.SwitchStmt:
		if s.Init != nil {
			return nil, "call in a switch tag that follows an init statement"
		}
	case *ast.AssignStmt, *ast.ExprStmt, *ast.ReturnStmt, *ast.DeclStmt, *ast.SendStmt:
	default:
		return nil, fmt.Sprintf("call inside a %T", stmt)
	}
	// a simple statement that is the init of a compound statement: hoist before the compound statement
	switch ps := parent.(type) {
	case *ast.IfStmt:
		if ps.Init == stmt {
			pl.anchor, ai = ps, si+1
		}
	case *ast.SwitchStmt:
		if ps.Init == stmt {
			pl.anchor, ai = ps, si+1
		}
	case *ast.TypeSwitchStmt:
		if ps.Init == stmt || ps.Assign == stmt {
			pl.anchor, ai = ps, si+1
		}
	case *ast.ForStmt:
		if ps.Init == stmt {
			pl.anchor, ai = ps, si+1
		} else {
			return nil, "call in a loop post statement"
		}
	case *ast.CommClause:
		if ps.Comm == stmt {
			return nil, "call in a select communication"
		}
	}
	if ai+1 >= len(path) {
		return nil, "no enclosing statement list"
	}
	switch gp := path[ai+1].(type) {
	case *ast.BlockStmt:
	case *ast.CaseClause:
		inBody := false
		for _, b := range gp.Body {
			if b == pl.anchor {
				inBody = true
			}
		}
		if !inBody {
			return nil, "call in a case expression"
		}
	case *ast.CommClause:
		inBody := false
		for _, b := range gp.Body {
			if b == pl.anchor {
				inBody = true
			}
		}
		if !inBody {
			return nil, "call in a select communication"
		}
	default:
		return nil, fmt.Sprintf("statement is not in a statement list (parent %T)", gp)
	}
	// the call must be the first thing its statement evaluates
	nres := sig.Results().Len()
	roots, ok := evalRoots(stmt)
	if !ok {
		return nil, "unsupported statement form"
	}
	found := false
	for _, e := range roots {
		if e == nil {
			continue
		}
		if within(call, e) {
			if !hoistable(info, e, call) {
				return nil, "the call is not the first thing its statement evaluates"
			}
			found = true
			break
		}
		if !pure(info, e) {
			return nil, "an earlier operand of the statement has effects"
		}
	}
	if !found {
		return nil, "call position not understood"
	}
	if es, ok := stmt.(*ast.ExprStmt); ok && ast.Unparen(es.X) == ast.Expr(call) {
		pl.wholeStm = true
	} else if nres == 0 {
		return nil, "call without results inside an expression"
	}
	// receiver
	if sig.Recv() != nil {
		se, ok := ast.Unparen(call.Fun).(*ast.SelectorExpr)
		if !ok {
			return nil, "method called through an expression form not understood"
		}
		sel := info.Selections[se]
		if sel == nil || sel.Kind() != types.MethodVal || len(sel.Index()) != 1 {
			return nil, "method reached through an embedded field or a method expression"
		}
		rt := sig.Recv().Type()
		xt := info.TypeOf(se.X)
		if xt == nil {
			return nil, "receiver type unknown"
		}
		xtext := r.text(se.X)
		switch {
		case types.Identical(xt, rt):
			pl.recvText = xtext
		case isPtrTo(rt, xt):
			pl.recvText = "&(" + xtext + ")"
		case isPtrTo(xt, rt):
			pl.recvText = "*(" + xtext + ")"
		default:
			return nil, "receiver conversion not understood"
		}
		if !pure(info, se.X) {
			return nil, "receiver expression has effects"
		}
	}
	// identifiers of the callee must mean the same thing at the call site
	if why := r.captureCheck(pk, file, pl); why != "" {
		return nil, why
	}
	return pl, ""
}

func isPtrTo(p, t types.Type) bool {
	pt, ok := p.Underlying().(*types.Pointer)
	if _, named := p.(*types.Named); named {
		return false
	}
	return ok && types.Identical(pt.Elem(), t)
}

func within(n ast.Node, e ast.Node) bool {
	return e != nil && e.Pos() <= n.Pos() && n.End() <= e.End()
}

// calleeOK: the body can be spliced as statements.
func calleeOK(info *types.Info, decl *ast.FuncDecl, fn *types.Func) string {
	why := ""
	ast.Inspect(decl.Body, func(n ast.Node) bool {
		if why != "" {
			return false
		}
		switch x := n.(type) {
		case *ast.FuncLit:
			return false
		case *ast.DeferStmt:
			why = "callee defers"
		case *ast.LabeledStmt:
			why = "callee has labels"
		case *ast.BranchStmt:
			if x.Tok == token.GOTO {
				why = "callee uses goto"
			}
		case *ast.CallExpr:
			if id, ok := ast.Unparen(x.Fun).(*ast.Ident); ok {
				if b, ok := info.Uses[id].(*types.Builtin); ok && b.Name() == "recover" {
					why = "callee recovers"
				}
			}
			if calleeOf(info, x) == fn {
				why = "callee is recursive"
			}
		}
		return true
	})
	return why
}

// evalRoots lists the operand expressions of a statement in evaluation order.
func evalRoots(s ast.Stmt) ([]ast.Expr, bool) {
	switch x := s.(type) {
	case *ast.ExprStmt:
		return []ast.Expr{x.X}, true
	case *ast.AssignStmt:
		var out []ast.Expr
		if x.Tok != token.DEFINE {
			for _, l := range x.Lhs {
				if _, isId := l.(*ast.Ident); !isId {
					out = append(out, l)
				}
			}
		}
		return append(out, x.Rhs...), true
	case *ast.ReturnStmt:
		return x.Results, true
	case *ast.DeclStmt:
		gd, ok := x.Decl.(*ast.GenDecl)
		if !ok || gd.Tok != token.VAR {
			return nil, false
		}
		var out []ast.Expr
		for _, sp := range gd.Specs {
			if vs, ok := sp.(*ast.ValueSpec); ok {
				out = append(out, vs.Values...)
			}
		}
		return out, true
	case *ast.SendStmt:
		return []ast.Expr{x.Chan, x.Value}, true
	case *ast.IfStmt:
		return []ast.Expr{x.Cond}, true
	case *ast.SwitchStmt:
		return []ast.Expr{x.Tag}, true
	case *ast.RangeStmt:
		return []ast.Expr{x.X}, true
	case *ast.GoStmt:
		return append([]ast.Expr{x.Call.Fun}, x.Call.Args...), true
	case *ast.DeferStmt:
		return append([]ast.Expr{x.Call.Fun}, x.Call.Args...), true
	}
	return nil, false
}

// pure: evaluating e calls nothing and receives nothing.
func pure(info *types.Info, e ast.Expr) bool {
	ok := true
	ast.Inspect(e, func(n ast.Node) bool {
		switch x := n.(type) {
		case *ast.FuncLit:
			return false
		case *ast.CallExpr:
			if tv, has := info.Types[x.Fun]; has && tv.IsType() {
				return true // conversion
			}
			if id, isId := ast.Unparen(x.Fun).(*ast.Ident); isId {
				if b, isB := info.Uses[id].(*types.Builtin); isB && (b.Name() == "len" || b.Name() == "cap") {
					return true
				}
			}
			ok = false
		case *ast.UnaryExpr:
			if x.Op == token.ARROW {
				ok = false
			}
		}
		return ok
	})
	return ok
}

// hoistable: call is evaluated before anything with effects inside e, and unconditionally.
func hoistable(info *types.Info, e ast.Expr, call *ast.CallExpr) bool {
	if e == ast.Expr(call) {
		return true
	}
	switch x := e.(type) {
	case *ast.ParenExpr:
		return hoistable(info, x.X, call)
	case *ast.UnaryExpr:
		if x.Op == token.ARROW {
			return false
		}
		return hoistable(info, x.X, call)
	case *ast.StarExpr:
		return hoistable(info, x.X, call)
	case *ast.BinaryExpr:
		if within(call, x.X) {
			return hoistable(info, x.X, call)
		}
		if x.Op == token.LAND || x.Op == token.LOR {
			return false
		}
		return pure(info, x.X) && hoistable(info, x.Y, call)
	case *ast.SelectorExpr:
		return hoistable(info, x.X, call)
	case *ast.TypeAssertExpr:
		return hoistable(info, x.X, call)
	case *ast.IndexExpr:
		if within(call, x.X) {
			return hoistable(info, x.X, call)
		}
		return pure(info, x.X) && hoistable(info, x.Index, call)
	case *ast.SliceExpr:
		if within(call, x.X) {
			return hoistable(info, x.X, call)
		}
		return false
	case *ast.CallExpr:
		if within(call, x.Fun) {
			return hoistable(info, x.Fun, call)
		}
		if !pure(info, x.Fun) {
			return false
		}
		for _, a := range x.Args {
			if within(call, a) {
				return hoistable(info, a, call)
			}
			if !pure(info, a) {
				return false
			}
		}
	case *ast.CompositeLit:
		for _, el := range x.Elts {
			v := el
			if kv, ok := el.(*ast.KeyValueExpr); ok {
				if within(call, kv.Key) {
					return false
				}
				v = kv.Value
			}
			if within(call, v) {
				return hoistable(info, v, call)
			}
			if !pure(info, el) {
				return false
			}
		}
	}
	return false
}

// captureCheck: every package-level, imported or predeclared name the callee's body (and signature) uses must
// resolve to the same object at the call site; imports the caller's file lacks are added.
func (r *rw) captureCheck(pk *packages.Package, file *ast.File, pl *plan) string {
	info := r.pkgOf[pl.callee].TypesInfo
	callerFile := r.fname(file.Pos())
	scope := pk.Types.Scope().Innermost(pl.anchor.Pos())
	if scope == nil {
		return "no scope at the call site"
	}
	why := ""
	check := func(id *ast.Ident) {
		obj := info.Uses[id]
		if obj == nil {
			return
		}
		switch o := obj.(type) {
		case *types.PkgName:
			_, at := scope.LookupParent(id.Name, pl.anchor.Pos())
			if at == nil {
				// the caller's file does not import it (or under another name)
				if other := importName(pk, file, o.Imported().Path()); other != "" && other != id.Name {
					why = "package " + o.Imported().Path() + " is imported under another name at the call site"
					return
				}
				if pk.Types.Scope().Lookup(id.Name) != nil || types.Universe.Lookup(id.Name) != nil {
					why = "import name " + id.Name + " clashes at the call site"
					return
				}
				if r.addImports[callerFile] == nil {
					r.addImports[callerFile] = map[string]string{}
				}
				r.addImports[callerFile][id.Name] = o.Imported().Path()
				return
			}
			if pn, ok := at.(*types.PkgName); !ok || pn.Imported() != o.Imported() {
				why = "name " + id.Name + " means something else at the call site"
			}
		default:
			par := obj.Parent()
			if par != types.Universe && (obj.Pkg() == nil || par != obj.Pkg().Scope()) {
				return // a local of the callee, a field or a method
			}
			_, at := scope.LookupParent(id.Name, pl.anchor.Pos())
			if at != obj {
				why = "name " + id.Name + " means something else at the call site"
			}
		}
	}
	var walk func(n ast.Node)
	walk = func(n ast.Node) {
		ast.Inspect(n, func(m ast.Node) bool {
			if why != "" {
				return false
			}
			switch x := m.(type) {
			case *ast.SelectorExpr:
				// the selected name is resolved through the operand (its type, or the package it names)
				walk(x.X)
				return false
			case *ast.Ident:
				check(x)
			}
			return true
		})
	}
	walk(pl.decl.Body)
	return why
}

func importName(pk *packages.Package, file *ast.File, path string) string {
	for _, sp := range file.Imports {
		if strings.Trim(sp.Path.Value, "\"`") != path {
			continue
		}
		if sp.Name != nil {
			return sp.Name.Name
		}
		if pn, ok := pk.TypesInfo.Implicits[sp].(*types.PkgName); ok {
			return pn.Name()
		}
	}
	return ""
}

// typeText renders t as source text valid in file (adding imports the file lacks).
func (r *rw) typeText(pk *packages.Package, file *ast.File, t types.Type) (string, bool) {
	callerFile := r.fname(file.Pos())
	ok := true
	s := types.TypeString(t, func(other *types.Package) string {
		if other == pk.Types {
			return ""
		}
		if n := importName(pk, file, other.Path()); n != "" {
			if n == "_" || n == "." {
				ok = false
			}
			r.use(callerFile, other.Path())
			return n
		}
		if n, has := r.findAdded(callerFile, other.Path()); has {
			r.use(callerFile, other.Path())
			return n
		}
		name := other.Name()
		if pk.Types.Scope().Lookup(name) != nil || types.Universe.Lookup(name) != nil {
			ok = false
			return name
		}
		for _, sp := range file.Imports {
			if importLocal(pk, sp) == name {
				ok = false
			}
		}
		if r.addImports[callerFile] == nil {
			r.addImports[callerFile] = map[string]string{}
		}
		r.addImports[callerFile][name] = other.Path()
		return name
	})
	return s, ok
}

func importLocal(pk *packages.Package, sp *ast.ImportSpec) string {
	if sp.Name != nil {
		return sp.Name.Name
	}
	if pn, ok := pk.TypesInfo.Implicits[sp].(*types.PkgName); ok {
		return pn.Name()
	}
	return ""
}

func (r *rw) findAdded(file, path string) (string, bool) {
	for n, p := range r.addImports[file] {
		if p == path {
			return n, true
		}
	}
	return "", false
}

func (r *rw) use(file, path string) {
	if r.newPkgUses[file] == nil {
		r.newPkgUses[file] = map[string]int{}
	}
	r.newPkgUses[file][path]++
}

// emit writes the edits of one planned site.
func (r *rw) emit(pk *packages.Package, file *ast.File, pl *plan) {
	r.site++
	k := fmt.Sprintf("%d_%d", r.round, r.site)
	sig := pl.callee.Type().(*types.Signature)
	cinfo := r.pkgOf[pl.callee].TypesInfo
	callerFile := r.fname(file.Pos())
	var b strings.Builder
	// result temporaries
	var temps []string
	for i := 0; i < sig.Results().Len(); i++ {
		ts, ok := r.typeText(pk, file, sig.Results().At(i).Type())
		if !ok {
			r.skip(pl.callee, pl.call.Pos(), "a result type cannot be written at the call site")
			return
		}
		t := fmt.Sprintf("inl%s_r%d", k, i)
		temps = append(temps, t)
		fmt.Fprintf(&b, "var %s %s\n", t, ts)
	}
	b.WriteString("{\n")
	// receiver and parameters
	var names, vals []string
	if rv := sig.Recv(); rv != nil {
		ts, ok := r.typeText(pk, file, rv.Type())
		if !ok {
			r.skip(pl.callee, pl.call.Pos(), "the receiver type cannot be written at the call site")
			return
		}
		name := "_"
		if pl.decl.Recv != nil && len(pl.decl.Recv.List) == 1 && len(pl.decl.Recv.List[0].Names) == 1 {
			name = pl.decl.Recv.List[0].Names[0].Name
		}
		names = append(names, name)
		vals = append(vals, "("+ts+")("+pl.recvText+")")
	}
	np := sig.Params().Len()
	args := pl.call.Args
	if len(args) == 1 && np > 1 {
		r.skip(pl.callee, pl.call.Pos(), "arguments are the results of another call")
		return
	}
	for i := 0; i < np; i++ {
		pv := sig.Params().At(i)
		ts, ok := r.typeText(pk, file, pv.Type())
		if !ok {
			r.skip(pl.callee, pl.call.Pos(), "a parameter type cannot be written at the call site")
			return
		}
		name := pv.Name()
		if name == "" {
			name = "_"
		}
		names = append(names, name)
		if sig.Variadic() && i == np-1 {
			if pl.call.Ellipsis.IsValid() {
				vals = append(vals, "("+ts+")("+r.text(args[i])+")")
			} else if len(args) <= i {
				vals = append(vals, "("+ts+")(nil)")
			} else {
				var els []string
				for _, a := range args[i:] {
					els = append(els, r.text(a))
				}
				vals = append(vals, ts+"{"+strings.Join(els, ", ")+"}")
			}
			continue
		}
		if i >= len(args) {
			r.skip(pl.callee, pl.call.Pos(), "argument count not understood")
			return
		}
		vals = append(vals, "("+ts+")("+r.text(args[i])+")")
	}
	if len(names) > 0 {
		fmt.Fprintf(&b, "var %s = %s\n", strings.Join(names, ", "), strings.Join(vals, ", "))
		var used []string
		for _, n := range names {
			if n != "_" {
				used = append(used, n)
			}
		}
		if len(used) > 0 {
			fmt.Fprintf(&b, "%s = %s\n", strings.Repeat("_, ", len(used)-1)+"_", strings.Join(used, ", "))
		}
	}
	// named results are locals of the inlined block
	var named []string
	for i := 0; i < sig.Results().Len(); i++ {
		rv := sig.Results().At(i)
		if rv.Name() != "" && rv.Name() != "_" {
			ts, _ := r.typeText(pk, file, rv.Type())
			fmt.Fprintf(&b, "var %s %s\n_ = %s\n", rv.Name(), ts, rv.Name())
		}
		named = append(named, rv.Name())
	}
	// body with returns rewritten
	label := "inl" + k + "_L"
	body, usesLabel, ok := r.bodyText(pl, temps, named, label)
	if !ok {
		r.skip(pl.callee, pl.call.Pos(), "a return statement of the callee is not understood")
		return
	}
	calleeFile := r.fname(pl.decl.Pos())
	lb := r.p.Fset.PositionFor(pl.decl.Body.Lbrace, false).Line
	if usesLabel {
		fmt.Fprintf(&b, "%s:\nswitch {\ndefault:\n", label)
	} else {
		b.WriteString("{\n")
	}
	fmt.Fprintf(&b, "//line %s:%d\n", calleeFile, lb)
	b.WriteString(body)
	b.WriteString("\n}\n}\n")
	al := r.p.Fset.PositionFor(pl.anchor.Pos(), false).Line
	fe := r.file(callerFile)
	if pl.wholeStm {
		for _, t := range temps {
			fmt.Fprintf(&b, "_ = %s\n", t)
		}
		fmt.Fprintf(&b, "//line %s:%d\n", callerFile, r.p.Fset.PositionFor(pl.stmt.End(), false).Line)
		// replace the whole statement
		fe.edits = append(fe.edits, edit{r.off(pl.stmt.Pos()), r.off(pl.stmt.End()), "\n" + b.String()})
	} else {
		fmt.Fprintf(&b, "//line %s:%d\n", callerFile, al)
		fe.edits = append(fe.edits, edit{r.off(pl.anchor.Pos()), r.off(pl.anchor.Pos()), "\n" + b.String()})
		fe.edits = append(fe.edits, edit{r.off(pl.call.Pos()), r.off(pl.call.End()), strings.Join(temps, ", ")})
	}
	// bookkeeping
	r.inlinedUses[pl.callee]++
	r.copied[pl.callee] = true
	ast.Inspect(pl.decl.Body, func(n ast.Node) bool {
		if id, ok := n.(*ast.Ident); ok {
			if pn, ok := cinfo.Uses[id].(*types.PkgName); ok {
				r.use(callerFile, pn.Imported().Path())
			}
		}
		return true
	})
	r.did = append(r.did, fmt.Sprintf("round %d: %s inlined at %s", r.round, pl.callee.FullName(), r.p.Pos(pl.call.Pos())))
}

// bodyText is the callee's body with `return …` turned into `temps = …; break label`.
func (r *rw) bodyText(pl *plan, temps, named []string, label string) (string, bool, bool) {
	fe := r.file(r.fname(pl.decl.Pos()))
	start, end := r.off(pl.decl.Body.Lbrace)+1, r.off(pl.decl.Body.Rbrace)
	var eds []edit
	okAll := true
	var rets []*ast.ReturnStmt
	ast.Inspect(pl.decl.Body, func(n ast.Node) bool {
		switch x := n.(type) {
		case *ast.FuncLit:
			return false
		case *ast.ReturnStmt:
			rets = append(rets, x)
		}
		return true
	})
	// a return that is the last statement of the body needs no jump
	var last ast.Stmt
	if n := len(pl.decl.Body.List); n > 0 {
		last = pl.decl.Body.List[n-1]
	}
	usesLabel := false
	for _, ret := range rets {
		var t string
		switch {
		case len(temps) == 0:
			t = ""
		case len(ret.Results) == 0:
			// bare return of named results
			for _, n := range named {
				if n == "" || n == "_" {
					okAll = false
				}
			}
			t = strings.Join(temps, ", ") + " = " + strings.Join(named, ", ")
		default:
			var rs []string
			for _, e := range ret.Results {
				rs = append(rs, string(fe.src[r.off(e.Pos()):r.off(e.End())]))
			}
			t = strings.Join(temps, ", ") + " = " + strings.Join(rs, ", ")
		}
		if ast.Stmt(ret) == last {
			eds = append(eds, edit{r.off(ret.Pos()), r.off(ret.End()), t})
			continue
		}
		usesLabel = true
		if t != "" {
			t += "; "
		}
		eds = append(eds, edit{r.off(ret.Pos()), r.off(ret.End()), "{ " + t + "break " + label + " }"})
	}
	sort.Slice(eds, func(i, j int) bool { return eds[i].start < eds[j].start })
	var out []byte
	at := start
	for _, e := range eds {
		if e.start < at {
			return "", false, false
		}
		out = append(out, fe.src[at:e.start]...)
		out = append(out, e.text...)
		at = e.end
	}
	out = append(out, fe.src[at:end]...)
	return string(out), usesLabel, okAll
}

// fixImports adds the imports inlined text needs and removes those left unused by dropped declarations.
func (r *rw) fixImports() {
	for _, pk := range r.p.Pkgs {
		for _, file := range pk.Syntax {
			name := r.fname(file.Pos())
			fe, touched := r.files[name]
			if !touched || len(fe.edits) == 0 {
				continue
			}
			// additions
			if add := r.addImports[name]; len(add) > 0 {
				var ns []string
				for n := range add {
					ns = append(ns, n)
				}
				sort.Strings(ns)
				var b strings.Builder
				for _, n := range ns {
					fmt.Fprintf(&b, "\nimport %s %q\n", n, add[n])
				}
				at := r.off(file.Name.End())
				fe.edits = append(fe.edits, edit{at, at, b.String()})
			}
			// removals
			dels := r.deleted[name]
			if len(dels) == 0 {
				continue
			}
			inDel := func(pos token.Pos) bool {
				o := r.off(pos)
				for _, d := range dels {
					if o >= d[0] && o < d[1] {
						return true
					}
				}
				return false
			}
			left := map[*types.PkgName]int{}
			ast.Inspect(file, func(n ast.Node) bool {
				if id, ok := n.(*ast.Ident); ok {
					if pn, ok := pk.TypesInfo.Uses[id].(*types.PkgName); ok && !inDel(id.Pos()) {
						left[pn]++
					}
				}
				return true
			})
			for _, decl := range file.Decls {
				gd, ok := decl.(*ast.GenDecl)
				if !ok || gd.Tok != token.IMPORT {
					continue
				}
				for _, sp := range gd.Specs {
					is := sp.(*ast.ImportSpec)
					if is.Name != nil && (is.Name.Name == "_" || is.Name.Name == ".") {
						continue
					}
					var pn *types.PkgName
					if is.Name != nil {
						pn, _ = pk.TypesInfo.Defs[is.Name].(*types.PkgName)
					} else {
						pn, _ = pk.TypesInfo.Implicits[is].(*types.PkgName)
					}
					if pn == nil || left[pn] > 0 || r.newPkgUses[name][pn.Imported().Path()] > 0 {
						continue
					}
					if gd.Lparen.IsValid() {
						fe.edits = append(fe.edits, edit{r.off(is.Pos()), r.off(is.End()), ""})
					} else {
						fe.edits = append(fe.edits, edit{r.off(gd.Pos()), r.off(gd.End()), ""})
					}
				}
			}
		}
	}
}
