// Package lockset computes must-locksets (context-sensitive in the entry lockset and in the
// closures bound to function-typed parameters), shared-field accesses, lock-order edges and
// the operations performed while a given lock is held.
package lockset

import (
	"go/token"
	"go/types"
	"sort"
	"strings"

	"golang.org/x/tools/go/ssa"

	"verif/internal/an"
)

// Set is a must-lockset: lock id → mode ('W' or 'R').
type Set map[string]byte

func (s Set) clone() Set {
	n := Set{}
	for k, v := range s {
		n[k] = v
	}
	return n
}

// Key renders the set canonically.
func (s Set) Key() string {
	var ks []string
	for k, v := range s {
		ks = append(ks, k+":"+string(v))
	}
	sort.Strings(ks)
	return strings.Join(ks, ",")
}

func meet(a, b Set) Set {
	if a == nil {
		return b.clone()
	}
	n := Set{}
	for k, v := range a {
		if w, ok := b[k]; ok {
			if v == 'R' || w == 'R' {
				n[k] = 'R'
			} else {
				n[k] = 'W'
			}
		}
	}
	return n
}

// Access is one read or write of an abstract shared location.
type Access struct {
	Loc   string
	Write bool
	Fn    *ssa.Function
	In    ssa.Instruction
	Locks Set
	Root  *ssa.Function
}

// Event is an operation observed under a lockset (channel op, call of a watched function).
type Event struct {
	What  string
	Fn    *ssa.Function
	In    ssa.Instruction
	Locks Set
	Root  *ssa.Function
}

// OrderEdge: lock To acquired while From was held.
type OrderEdge struct {
	From, To string
	Fn       *ssa.Function
	In       ssa.Instruction
	Root     *ssa.Function
}

// Config parameterises the analysis.
type Config struct {
	P *an.Prog
	// Pseudo-locks: calling these functions acquires / releases a named token.
	Acquire map[*ssa.Function]string
	Release map[*ssa.Function]string
	// AcquireAt / ReleaseAt: executing this instruction acquires / releases a named token ("" = none).
	AcquireAt func(ssa.Instruction) string
	ReleaseAt func(ssa.Instruction) string
	// RootHeld: tokens held on entry of a root.
	RootHeld map[*ssa.Function][]string
	// Shared: struct types whose fields are shared locations (by type object).
	Shared map[*types.TypeName]bool
	// Watch: calls of these functions are recorded as events.
	Watch map[*ssa.Function]string
}

// Result of Analyze.
type Result struct {
	Accesses []Access
	Events   []Event
	Order    []OrderEdge
	Contexts int
	Funcs    map[*ssa.Function]bool
}

type ctxKey struct {
	f     *ssa.Function
	entry string
	bind  string
	nilc  string
}

type analyzer struct {
	cfg    *Config
	p      *an.Prog
	res    *Result
	memo   map[ctxKey]Set // exit set
	inprog map[ctxKey]bool
	root   *ssa.Function
	seenA  map[string]bool
	depth  int
	curNil an.NilCtx
}

// Analyze runs the analysis from each root with an empty lockset (plus RootHeld tokens).
func Analyze(cfg *Config, roots []*ssa.Function) *Result {
	a := &analyzer{cfg: cfg, p: cfg.P, res: &Result{Funcs: map[*ssa.Function]bool{}}, seenA: map[string]bool{}}
	for _, r := range roots {
		if r == nil || r.Blocks == nil {
			continue
		}
		a.root = r
		a.memo = map[ctxKey]Set{}
		a.inprog = map[ctxKey]bool{}
		entry := Set{}
		for _, t := range cfg.RootHeld[r] {
			entry[t] = 'W'
		}
		a.fn(r, entry, nil, nil)
		a.res.Contexts += len(a.memo)
	}
	return a.res
}

func bindKey(b map[int]*ssa.Function) string {
	if len(b) == 0 {
		return ""
	}
	var ks []string
	for i, f := range b {
		ks = append(ks, string(rune('0'+i))+"="+an.FuncKey(f))
	}
	sort.Strings(ks)
	return strings.Join(ks, ";")
}

// lockID names the mutex whose address is v ("" if not a recognisable mutex).
func (a *analyzer) lockID(v ssa.Value) string {
	switch x := v.(type) {
	case *ssa.FieldAddr:
		st := derefStruct(x.X.Type())
		if st == nil {
			return ""
		}
		owner := "?"
		if n := an.NamedOf(x.X.Type()); n != nil {
			owner = an.TName(n)
		}
		return owner + "." + an.FName(st, x.Field)
	case *ssa.Global:
		return x.Pkg.Pkg.Name() + "." + an.GName(x)
	}
	return ""
}

func derefStruct(t types.Type) *types.Struct {
	if pt, ok := t.Underlying().(*types.Pointer); ok {
		t = pt.Elem()
	}
	st, _ := t.Underlying().(*types.Struct)
	return st
}

// fn analyses f under the entry lockset; returns the must-lockset at its returns (after deferred calls).
func (a *analyzer) fn(f *ssa.Function, entry Set, bind map[int]*ssa.Function, nilc an.NilCtx) Set {
	if f == nil || f.Blocks == nil || !a.p.InModule(f) {
		return entry
	}
	k := ctxKey{f, entry.Key(), bindKey(bind), nilc.Key()}
	if ex, ok := a.memo[k]; ok {
		return ex
	}
	if a.inprog[k] || a.depth > 60 {
		return entry
	}
	a.inprog[k] = true
	a.depth++
	defer func() { a.depth--; delete(a.inprog, k) }()
	a.res.Funcs[f] = true

	in := map[*ssa.BasicBlock]Set{}
	in[f.Blocks[0]] = entry.clone()
	var deferred []ssa.Instruction
	var exit Set
	// iterate to fixpoint (meet = intersection, so sets only shrink)
	work := []*ssa.BasicBlock{f.Blocks[0]}
	visited := map[*ssa.BasicBlock]string{}
	for len(work) > 0 {
		b := work[0]
		work = work[1:]
		st := in[b].clone()
		key := st.Key()
		if prev, ok := visited[b]; ok && prev == key {
			continue
		}
		visited[b] = key
		for _, ins := range b.Instrs {
			a.curNil = nilc
			st = a.step(f, ins, st, bind, &deferred)
			if _, isRet := ins.(*ssa.Return); isRet {
				ex := st.clone()
				// deferred calls run now, in reverse order
				for i := len(deferred) - 1; i >= 0; i-- {
					ex = a.applyDeferred(f, deferred[i], ex, bind)
				}
				exit = meet(exit, ex)
			}
		}
		for _, s := range b.Succs {
			if a.p.Infeasible(s, nilc) {
				continue
			}
			if cur, ok := in[s]; ok {
				m := meet(cur, st)
				if m.Key() != cur.Key() {
					in[s] = m
					work = append(work, s)
				}
			} else {
				in[s] = st.clone()
				work = append(work, s)
			}
		}
	}
	if exit == nil {
		exit = entry.clone() // no return (infinite loop / panic): irrelevant
	}
	a.memo[k] = exit
	return exit
}

func (a *analyzer) applyDeferred(f *ssa.Function, d ssa.Instruction, st Set, bind map[int]*ssa.Function) Set {
	df := d.(*ssa.Defer)
	var scratch []ssa.Instruction
	// treat the deferred call as an ordinary call executed now
	return a.call(f, d, &df.Call, st, bind, &scratch, false)
}

func (a *analyzer) step(f *ssa.Function, ins ssa.Instruction, st Set, bind map[int]*ssa.Function, deferred *[]ssa.Instruction) Set {
	if a.cfg.AcquireAt != nil {
		if tok := a.cfg.AcquireAt(ins); tok != "" {
			st = st.clone()
			st[tok] = 'W'
		}
	}
	if a.cfg.ReleaseAt != nil {
		if tok := a.cfg.ReleaseAt(ins); tok != "" {
			st = st.clone()
			delete(st, tok)
		}
	}
	switch x := ins.(type) {
	case *ssa.Defer:
		*deferred = append(*deferred, ins)
		return st
	case *ssa.Go:
		return st
	case *ssa.Call:
		return a.call(f, ins, &x.Call, st, bind, deferred, true)
	case *ssa.Store:
		a.access(f, ins, x.Addr, true, st)
	case *ssa.UnOp:
		if x.Op == token.MUL {
			a.access(f, ins, x.X, false, st)
		}
		if x.Op == token.ARROW {
			a.event(f, ins, "chan-recv:"+a.p.Desc(x.X), st)
		}
	case *ssa.MapUpdate:
		a.accessVal(f, ins, x.Map, true, st)
	case *ssa.Lookup:
		a.accessVal(f, ins, x.X, false, st)
	case *ssa.Range:
		a.accessVal(f, ins, x.X, false, st)
	case *ssa.Send:
		a.event(f, ins, "chan-send:"+a.p.Desc(x.Chan), st)
	case *ssa.Select:
		if x.Blocking {
			a.event(f, ins, "select", st)
		}
	}
	return st
}

func (a *analyzer) event(f *ssa.Function, ins ssa.Instruction, what string, st Set) {
	a.res.Events = append(a.res.Events, Event{What: what, Fn: f, In: ins, Locks: st.clone(), Root: a.root})
}

func (a *analyzer) call(f *ssa.Function, ins ssa.Instruction, cc *ssa.CallCommon, st Set, bind map[int]*ssa.Function, deferred *[]ssa.Instruction, record bool) Set {
	// builtins
	if b, ok := cc.Value.(*ssa.Builtin); ok {
		if b.Name() == "delete" && len(cc.Args) > 0 {
			a.accessVal(f, ins, cc.Args[0], true, st)
		}
		if b.Name() == "close" {
			a.event(f, ins, "chan-close:"+a.p.Desc(cc.Args[0]), st)
		}
		if b.Name() == "copy" && len(cc.Args) == 2 {
			// copy(x.f[:], …) / copy((*x.p)[:], …): the bytes behind a shared field are overwritten
			if sl, ok := cc.Args[0].(*ssa.Slice); ok {
				a.accessVal(f, ins, sl.X, true, st)
				a.access(f, ins, sl.X, true, st)
			}
		}
		return st
	}
	if cal := cc.StaticCallee(); cal != nil {
		// wiping helpers overwrite what their pointer argument points to: key.Zero(), zero.Bytes(x.buf) …
		if pk := an.FuncPkg(cal); pk != nil && len(cc.Args) > 0 && (strings.HasSuffix(pk.Path(), "/zero") || cal.Name() == "Zero") {
			a.accessVal(f, ins, cc.Args[0], true, st)
			if sl, ok := cc.Args[0].(*ssa.Slice); ok {
				a.accessVal(f, ins, sl.X, true, st)
				a.access(f, ins, sl.X, true, st)
			}
		}
		switch an.FuncKey(cal) {
		case "(*sync.Mutex).Lock", "(*sync.RWMutex).Lock":
			return a.acquire(f, ins, a.lockID(cc.Args[0]), 'W', st)
		case "(*sync.RWMutex).RLock":
			return a.acquire(f, ins, a.lockID(cc.Args[0]), 'R', st)
		case "(*sync.Mutex).Unlock", "(*sync.RWMutex).Unlock", "(*sync.RWMutex).RUnlock":
			id := a.lockID(cc.Args[0])
			n := st.clone()
			delete(n, id)
			return n
		}
		if w, ok := a.cfg.Watch[cal]; ok {
			a.event(f, ins, "call:"+w, st)
		}
		if tok, ok := a.cfg.Acquire[cal]; ok {
			n := a.fnWithBind(f, ins, cal, cc, st)
			n = n.clone()
			n[tok] = 'W'
			return n
		}
		if tok, ok := a.cfg.Release[cal]; ok {
			n := a.fnWithBind(f, ins, cal, cc, st).clone()
			delete(n, tok)
			return n
		}
		return a.fnWithBind(f, ins, cal, cc, st)
	}
	// dynamic call of a bound parameter
	if par, ok := cc.Value.(*ssa.Parameter); ok && !cc.IsInvoke() {
		for i, q := range f.Params {
			if q == par {
				if cl, ok := bind[i]; ok {
					return a.fn(cl, st, nil, nil)
				}
			}
		}
		return st
	}
	// closure made in place
	if mc, ok := cc.Value.(*ssa.MakeClosure); ok {
		if cl, ok := mc.Fn.(*ssa.Function); ok {
			return a.fn(cl, st, nil, nil)
		}
	}
	// interface / other dynamic: all resolved module callees, meet of exits
	var out Set
	any := false
	for _, cal := range a.p.Callees(ins) {
		if !a.p.InModule(cal) {
			continue
		}
		any = true
		out = meet(out, a.fn(cal, st, nil, a.p.ArgNilCtx(f, ins, a.curNil)))
	}
	if !any {
		return st
	}
	return out
}

func (a *analyzer) fnWithBind(f *ssa.Function, ins ssa.Instruction, cal *ssa.Function, cc *ssa.CallCommon, st Set) Set {
	var bind map[int]*ssa.Function
	for i, arg := range cc.Args {
		var cl *ssa.Function
		switch v := arg.(type) {
		case *ssa.MakeClosure:
			cl, _ = v.Fn.(*ssa.Function)
		case *ssa.Function:
			cl = v
		}
		if cl != nil {
			if bind == nil {
				bind = map[int]*ssa.Function{}
			}
			bind[i] = cl
		}
	}
	return a.fn(cal, st, bind, a.p.ArgNilCtx(f, ins, a.curNil))
}

func (a *analyzer) acquire(f *ssa.Function, ins ssa.Instruction, id string, mode byte, st Set) Set {
	if id == "" {
		return st
	}
	for held := range st {
		a.res.Order = append(a.res.Order, OrderEdge{From: held, To: id, Fn: f, In: ins, Root: a.root})
	}
	n := st.clone()
	n[id] = mode
	return n
}

// locOf maps an address to an abstract shared location ("" if not shared / fresh).
func (a *analyzer) locOf(addr ssa.Value) string {
	var root *ssa.FieldAddr
	cur := addr
	for {
		switch x := cur.(type) {
		case *ssa.FieldAddr:
			root = x
			cur = x.X
			continue
		case *ssa.IndexAddr:
			cur = x.X
			continue
		}
		break
	}
	if root == nil {
		if g, ok := addr.(*ssa.Global); ok && a.p.InModule(a.root) {
			if strings.HasPrefix(g.Pkg.Pkg.Path(), an.Module) {
				return "global:" + g.Pkg.Pkg.Name() + "." + an.GName(g)
			}
		}
		return ""
	}
	// fresh object of this function: constructor
	if _, ok := root.X.(*ssa.Alloc); ok {
		return ""
	}
	n := an.NamedOf(root.X.Type())
	if n == nil || !a.cfg.Shared[n.Obj()] {
		return ""
	}
	st := derefStruct(root.X.Type())
	if st == nil {
		return ""
	}
	return an.TName(n) + "." + an.FName(st, root.Field)
}

func (a *analyzer) access(f *ssa.Function, ins ssa.Instruction, addr ssa.Value, write bool, st Set) {
	loc := a.locOf(addr)
	if loc == "" {
		return
	}
	a.record(loc, write, f, ins, st)
}

// accessVal: v is a map/slice value; if it was loaded from a shared field, the operation reads/writes that field's contents.
func (a *analyzer) accessVal(f *ssa.Function, ins ssa.Instruction, v ssa.Value, write bool, st Set) {
	if u, ok := v.(*ssa.UnOp); ok && u.Op == token.MUL {
		if loc := a.locOf(u.X); loc != "" {
			a.record(loc+"[]", write, f, ins, st)
		}
	}
}

func (a *analyzer) record(loc string, write bool, f *ssa.Function, ins ssa.Instruction, st Set) {
	k := loc + "|" + an.FuncKey(f) + "|" + a.p.InstrPos(ins) + "|" + st.Key() + "|" + an.FuncKey(a.root)
	if write {
		k += "|w"
	}
	if a.seenA[k] {
		return
	}
	a.seenA[k] = true
	a.res.Accesses = append(a.res.Accesses, Access{Loc: loc, Write: write, Fn: f, In: ins, Locks: st.clone(), Root: a.root})
}

// SharedTypes computes the module struct types reachable from the given root types through
// pointer, map, slice and interface (module implementors) fields.
func SharedTypes(p *an.Prog, roots []*types.Named) map[*types.TypeName]bool {
	out := map[*types.TypeName]bool{}
	var modNamed []*types.Named
	for _, pk := range p.Pkgs {
		sc := pk.Types.Scope()
		for _, n := range sc.Names() {
			if tn, ok := sc.Lookup(n).(*types.TypeName); ok {
				if nm, ok := tn.Type().(*types.Named); ok {
					modNamed = append(modNamed, nm)
				}
			}
		}
	}
	// byRef: the type was reached through a pointer/map/slice/interface (a heap object of its own);
	// a struct held by value inside another struct is part of its owner's location.
	var visit func(t types.Type, depth int, byRef bool)
	visit = func(t types.Type, depth int, byRef bool) {
		if depth > 12 {
			return
		}
		switch x := t.(type) {
		case *types.Pointer:
			visit(x.Elem(), depth+1, true)
		case *types.Slice:
			visit(x.Elem(), depth+1, true)
		case *types.Array:
			visit(x.Elem(), depth+1, byRef)
		case *types.Map:
			visit(x.Key(), depth+1, true)
			visit(x.Elem(), depth+1, true)
		case *types.Named:
			if x.Obj().Pkg() == nil || !strings.HasPrefix(x.Obj().Pkg().Path(), an.Module) {
				return
			}
			switch u := x.Underlying().(type) {
			case *types.Struct:
				if byRef {
					if out[x.Obj()] {
						return
					}
					out[x.Obj()] = true
				}
				for i := 0; i < u.NumFields(); i++ {
					visit(u.Field(i).Type(), depth+1, false)
				}
			case *types.Interface:
				if u.NumMethods() == 0 {
					return
				}
				for _, m := range modNamed {
					if _, isStruct := m.Underlying().(*types.Struct); !isStruct {
						continue
					}
					if types.Implements(m, u) || types.Implements(types.NewPointer(m), u) {
						visit(m, depth+1, true)
					}
				}
			default:
				visit(x.Underlying(), depth+1, byRef)
			}
		case *types.Struct:
			for i := 0; i < x.NumFields(); i++ {
				visit(x.Field(i).Type(), depth+1, false)
			}
		}
	}
	for _, r := range roots {
		if r != nil {
			visit(r, 0, true)
		}
	}
	return out
}
